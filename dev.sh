#!/bin/bash
# development aid (not registered in MANIFEST): builds the checker from a copy of mc/ against a clean scratch
# worktree of /repo's HEAD (so it can be used while a seeded patch is applied to /repo) and runs one check
# with evidence/replays written to /tmp/mcdev/out. usage: dev.sh <Cxx> quick|thorough ; dev.sh clean
export GOFLAGS=-mod=mod GOPROXY=off GOSUMDB=off GOTOOLCHAIN=local GOGC=${GOGC:-300} GOMEMLIMIT=${GOMEMLIMIT:-24GiB}
D=/tmp/mcdev
if [ "$1" = clean ]; then git -C /repo worktree remove --force $D/repo 2>/dev/null; rm -rf $D; git -C /repo worktree prune; exit 0; fi
mkdir -p $D/out/evidence $D/out/replays
[ -d $D/repo ] || git -C /repo worktree add --detach $D/repo HEAD >/dev/null 2>&1
rsync -a --delete /verif/mc/ $D/mc/
sed -i "s|=> /repo|=> $D/repo|" $D/mc/go.mod
cp $D/repo/go.sum $D/mc/go.sum
cp /verif/known_findings.json $D/out/
(cd $D/mc && go build -tags verif -o $D/c4emc ./cmd/c4emc) || exit 2
VERIF_DIR=$D/out exec $D/c4emc check "$1" --tier "${2:-quick}"
