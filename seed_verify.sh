#!/bin/bash
# usage: seed_verify.sh <seed-id> <worktree> <demo-test-pkg> <demo-test-regex> <check ids...>
# 1. extracts patch.diff from the worktree, 2. confirms the demo test fails with / passes without the change,
# 3. confirms the repository's baseline suite still passes with the change, 4. applies the patch to /repo,
# runs the given checks (quick) and reverts /repo.
set -u
ID=$1; WT=$2; PKG=$3; RE=$4; shift 4
export GOFLAGS=-mod=mod GOPROXY=off GOSUMDB=off GOTOOLCHAIN=local
D=/verif/seeded/$ID; mkdir -p $D
(cd $WT && git diff > $D/patch.diff)
[ -s $D/patch.diff ] || { echo "empty patch"; exit 2; }
(cd $WT && git ls-files --others --exclude-standard | grep '_test.go$' | while read f; do mkdir -p $D/demo/$(dirname $f); cp $f $D/demo/$f; done)
[ -f $WT/SEED_REPORT.md ] && cp $WT/SEED_REPORT.md $D/
echo "== demo WITH change"; (cd $WT && go test -vet=off -count=1 $PKG -run "$RE" 2>&1 | tail -5) | tee $D/demo_with.txt
(cd $WT && git apply -R $D/patch.diff)
echo "== demo WITHOUT change"; (cd $WT && go test -vet=off -count=1 $PKG -run "$RE" 2>&1 | tail -5) | tee $D/demo_without.txt
(cd $WT && git apply $D/patch.diff)
echo "== baseline suite with change"; /verif/baseline_gate.sh $WT | tee $D/baseline_with.txt
echo "== checks on /repo with the patch applied"
git -C /repo apply $D/patch.diff || { echo "patch does not apply to /repo"; exit 2; }
for c in "$@"; do (cd /verif && ./run.sh $c quick 2>/dev/null | grep "^VIOLATION\|^OK\|^KNOWN\|MACHINERY\|  what" | head -6) | tee $D/check_$c.txt; done
git -C /repo checkout -- . ; git -C /repo status --short | head -3
