#!/usr/bin/env python3
# usage: seed_meta.py <seed-dir-name> <property> <needs> <change> [history]
# writes /verif/seeded/<name>/meta.json; "detected_by" is read from the check_*.txt files the
# verification run left (replay files give the signatures).
import json, os, re, sys, glob
name, prop, needs, change = sys.argv[1:5]
hist = sys.argv[5] if len(sys.argv) > 5 else "detected on first run"
d = f"/verif/seeded/{name}"
det = {}
for f in sorted(glob.glob(d + "/check_*.txt")):
    cid = os.path.basename(f)[6:-4]
    sigs = []
    for m in re.finditer(r"^VIOLATION property=(\S+) replay=(\S+)", open(f).read(), re.M):
        try:
            sigs.append(json.load(open(m.group(2)))["signature"])
        except Exception:
            sigs.append("(see " + os.path.basename(f) + ")")
    if sigs:
        det[cid] = sorted(set(sigs))
meta = {"property": prop, "needs": needs, "change": change, "detected_by": det, "history": hist,
        "source": "fresh sub-agent (fourth or fifth wave) given only the property text, a note on which kinds of change already existed, and a scratch worktree",
        "what_was_run": "seed_verify.sh: demo test fails with / passes without the change; repository suite: all 550 stable tests pass with the change; patch applied to /repo, quick checks run, /repo reverted (see the *.txt files)"}
json.dump(meta, open(d + "/meta.json", "w"), indent=1)
print(json.dumps(det))
