#!/bin/bash
# usage: ./run.sh <Cxx> quick|thorough        run one property check (rebuilds against /repo's working tree)
#        ./run.sh build                       build only
#        ./run.sh replay <file>               re-execute a replay file
set -u
cd "$(dirname "$0")"
HERE=$(pwd)
export VERIF_DIR=$HERE
export GOFLAGS=-mod=mod GOPROXY=off GOSUMDB=off GOTOOLCHAIN=local
export GOMAXPROCS=${GOMAXPROCS:-16}
# the explorations allocate heavily (store branches): a laxer collector is ~30% faster; the memory limit keeps it bounded
export GOGC=${GOGC:-300} GOMEMLIMIT=${GOMEMLIMIT:-24GiB}
BIN=$HERE/.build/c4emc
build() {
  mkdir -p $HERE/.build
  cp /repo/go.sum $HERE/mc/go.sum
  (cd $HERE/mc && go build -tags verif -o "$BIN" ./cmd/c4emc) || { echo "BUILD-ERROR: harness does not compile against /repo" >&2; exit 2; }
}
case "${1:-}" in
  build) build ;;
  replay) build; exec "$BIN" replay "$2" ;;
  C*) build; exec "$BIN" check "$1" --tier "${2:-${VERIF_TIER:-quick}}" ;;
  *) echo "usage: $0 <Cxx> quick|thorough | build | replay <file>" >&2; exit 2 ;;
esac
