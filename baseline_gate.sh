#!/bin/bash
# Runs the repository's own test suite (unedited, guard OFF) and checks that every test in
# /root/.vp/BASELINE.json stable_pass passes. Usage: ./baseline_gate.sh [repo_dir]
REPO=${1:-/repo}
export GOFLAGS=-mod=mod GOPROXY=off GOSUMDB=off GOTOOLCHAIN=local
OUT=$(mktemp /tmp/baseline.XXXXXX.json)
(cd "$REPO" && go test -json -vet=off -count=1 -timeout 25m ./... > "$OUT" 2>/dev/null)
python3 - "$OUT" <<'PY'
import json,sys
res={}
for l in open(sys.argv[1]):
    try: e=json.loads(l)
    except Exception: continue
    if e.get('Test') and e.get('Action') in('pass','fail','skip'):
        res[e['Package']+'::'+e['Test']]=e['Action']
base=json.load(open('/root/.vp/BASELINE.json'))['stable_pass']
bad=[t for t in base if res.get(t)!='pass']
print(f"baseline: {len(base)} stable tests, {len(base)-len(bad)} pass, {len(bad)} not passing")
for t in bad[:40]: print("  NOT PASSING:", t, res.get(t))
sys.exit(1 if bad else 0)
PY
rc=$?
rm -f "$OUT"
exit $rc
