// Package explore is a level-synchronous breadth-first explicit-state explorer over event
// histories of a deterministic system. States are never cloned: a worker rebuilds a frontier
// state by replaying its shortest event list on its own instance (sharing prefixes with the
// previously rebuilt state) and then tries every event of the alphabet on a fresh branch.
package explore

import (
	"fmt"
	"sort"
	"sync"
	"sync/atomic"
	"time"
)

// Violation is a property failure found on a state or transition.
type Violation struct {
	Property string      `json:"property"`
	What     string      `json:"what"`
	Sig      string      `json:"signature"` // stable signature used to match known findings
	Path     []string    `json:"path"`      // event names from the root
	Detail   interface{} `json:"detail,omitempty"`
}

func (v *Violation) Error() string { return v.Property + ": " + v.What }

// Step is the result of trying one event.
type Step struct {
	Child   interface{} // new state (nil if the event is not enabled in this state)
	Outcome string      // outcome class key, e.g. ok / err:sdk/5 / invalid / panic
	// NoState marks transitions whose child must not be expanded (e.g. after a panic in block processing).
	Dead bool
}

// Worker owns one instance of the system under test.
type Worker interface {
	Root() interface{}
	// Apply executes event ev on a fresh branch of state s. check=false is used when rebuilding
	// a state from its path (oracles already ran when the transition was first explored).
	Apply(s interface{}, ev int, check bool) (Step, []*Violation)
	Digest(s interface{}) string
	CheckState(s interface{}) []*Violation
}

type System interface {
	Events() []string
	NewWorker() Worker
}

type Options struct {
	MaxDepth int
	Workers  int
	Budget   time.Duration // stops expansion only; never decides
	MaxViol  int
	// KeepTree records the BFS tree (shortest path, digest, outcome per state) for conformance replay.
	KeepTree bool
	Progress func(string)
}

type TreeNode struct {
	Path    []uint16
	Digest  string
	Outcome string // outcome of the last event on the path
}

type Result struct {
	States        int
	Transitions   int
	Rejected      int // transitions whose outcome was not ok
	DepthComplete int // deepest level whose states were all expanded... i.e. all histories of length <= DepthComplete+0 explored
	Exhaustive    bool
	PerEvent      map[string]map[string]int // event -> outcome -> count
	Outcomes      map[string]int
	Violations    []*Violation
	Tree          []TreeNode
	LevelSizes    []int
	Wall          time.Duration
}

type item struct {
	path []uint16
}

func lessPath(a, b []uint16) bool {
	for i := 0; i < len(a) && i < len(b); i++ {
		if a[i] != b[i] {
			return a[i] < b[i]
		}
	}
	return len(a) < len(b)
}

type stackEnt struct {
	ev    uint16
	state interface{}
}

// Run explores all histories of length <= MaxDepth.
func Run(sys System, opt Options) *Result {
	start := time.Now()
	events := sys.Events()
	if opt.Workers <= 0 {
		opt.Workers = 1
	}
	if opt.MaxViol <= 0 {
		opt.MaxViol = 40 // distinct violation signatures
	}
	res := &Result{PerEvent: map[string]map[string]int{}, Outcomes: map[string]int{}, Exhaustive: true}
	var mu sync.Mutex
	seen := map[string]struct{}{}
	// violations are kept once per signature (shortest path wins), so a finding that recurs in
	// thousands of states neither floods the report nor cuts the exploration short
	bySig := map[string]int{}
	addViol := func(vs []*Violation) {
		if len(vs) == 0 {
			return
		}
		mu.Lock()
		for _, v := range vs {
			key := v.Property + "|" + v.Sig
			if i, ok := bySig[key]; ok {
				if len(v.Path) < len(res.Violations[i].Path) {
					res.Violations[i] = v
				}
				continue
			}
			bySig[key] = len(res.Violations)
			res.Violations = append(res.Violations, v)
		}
		mu.Unlock()
	}
	names := func(p []uint16) []string {
		out := make([]string, len(p))
		for i, e := range p {
			out[i] = events[e]
		}
		return out
	}

	workers := make([]Worker, opt.Workers)
	var wg sync.WaitGroup
	for i := range workers {
		wg.Add(1)
		go func(i int) { defer wg.Done(); workers[i] = sys.NewWorker() }(i)
	}
	wg.Wait()

	// root
	root := workers[0].Root()
	rd := workers[0].Digest(root)
	seen[rd] = struct{}{}
	res.States = 1
	rootV := workers[0].CheckState(root)
	for _, v := range rootV {
		v.Path = []string{}
	}
	addViol(rootV)
	if opt.KeepTree {
		res.Tree = append(res.Tree, TreeNode{Path: nil, Digest: rd})
	}
	frontier := []item{{path: nil}}
	res.LevelSizes = append(res.LevelSizes, 1)
	deadline := time.Time{}
	if opt.Budget > 0 {
		deadline = start.Add(opt.Budget)
	}

	for depth := 0; depth < opt.MaxDepth && len(frontier) > 0; depth++ {
		if !deadline.IsZero() && time.Now().After(deadline) {
			res.Exhaustive = false
			break
		}
		sort.Slice(frontier, func(i, j int) bool { return lessPath(frontier[i].path, frontier[j].path) })
		var next []item
		var nextMu sync.Mutex
		var idx int64 = -1
		var transitions, rejected int64
		var incomplete int32
		const chunk = 8
		wg = sync.WaitGroup{}
		for wi := range workers {
			wg.Add(1)
			go func(w Worker) {
				defer wg.Done()
				var stack []stackEnt
				rootS := w.Root()
				localPE := map[string]map[string]int{}
				var localNext []item
				var localTree []TreeNode
				for {
					base := int(atomic.AddInt64(&idx, chunk)) - chunk + 1
					if base >= len(frontier) {
						break
					}
					if !deadline.IsZero() && time.Now().After(deadline) {
						atomic.StoreInt32(&incomplete, 1)
						break
					}
					for k := base; k < base+chunk && k < len(frontier); k++ {
						it := frontier[k]
						// rebuild, sharing the common prefix with the previous item
						common := 0
						for common < len(stack) && common < len(it.path) && stack[common].ev == it.path[common] {
							common++
						}
						stack = stack[:common]
						cur := rootS
						if common > 0 {
							cur = stack[common-1].state
						}
						for j := common; j < len(it.path); j++ {
							st, _ := w.Apply(cur, int(it.path[j]), false)
							if st.Child == nil {
								panic(fmt.Sprintf("explore: replay divergence at %v step %d (event not enabled)", names(it.path), j))
							}
							cur = st.Child
							stack = append(stack, stackEnt{ev: it.path[j], state: cur})
						}
						for ev := range events {
							st, vs := w.Apply(cur, ev, true)
							if st.Child == nil && len(vs) == 0 {
								continue
							}
							atomic.AddInt64(&transitions, 1)
							if st.Outcome != "ok" {
								atomic.AddInt64(&rejected, 1)
							}
							m := localPE[events[ev]]
							if m == nil {
								m = map[string]int{}
								localPE[events[ev]] = m
							}
							m[st.Outcome]++
							child := append(append(make([]uint16, 0, len(it.path)+1), it.path...), uint16(ev))
							for _, v := range vs {
								v.Path = names(child)
							}
							addViol(vs)
							if st.Child == nil || st.Dead {
								continue
							}
							d := w.Digest(st.Child)
							mu.Lock()
							_, dup := seen[d]
							if !dup {
								seen[d] = struct{}{}
							}
							mu.Unlock()
							if dup {
								continue
							}
							svs := w.CheckState(st.Child)
							for _, v := range svs {
								v.Path = names(child)
							}
							addViol(svs)
							localNext = append(localNext, item{path: child})
							if opt.KeepTree {
								localTree = append(localTree, TreeNode{Path: child, Digest: d, Outcome: st.Outcome})
							}
						}
					}
				}
				nextMu.Lock()
				next = append(next, localNext...)
				res.Tree = append(res.Tree, localTree...)
				for e, m := range localPE {
					if res.PerEvent[e] == nil {
						res.PerEvent[e] = map[string]int{}
					}
					for o, c := range m {
						res.PerEvent[e][o] += c
						res.Outcomes[o] += c
					}
				}
				nextMu.Unlock()
			}(workers[wi])
		}
		wg.Wait()
		res.Transitions += int(transitions)
		res.Rejected += int(rejected)
		res.States += len(next)
		res.LevelSizes = append(res.LevelSizes, len(next))
		if incomplete != 0 {
			res.Exhaustive = false
			break
		}
		res.DepthComplete = depth + 1
		frontier = next
		if opt.Progress != nil {
			opt.Progress(fmt.Sprintf("depth %d: states=%d transitions=%d new=%d elapsed=%s", depth+1, res.States, res.Transitions, len(next), time.Since(start).Round(time.Millisecond)))
		}
		mu.Lock()
		nv := len(res.Violations)
		mu.Unlock()
		if nv >= opt.MaxViol {
			res.Exhaustive = false
			break
		}
	}
	sort.Slice(res.Tree, func(i, j int) bool {
		if len(res.Tree[i].Path) != len(res.Tree[j].Path) {
			return len(res.Tree[i].Path) < len(res.Tree[j].Path)
		}
		return lessPath(res.Tree[i].Path, res.Tree[j].Path)
	})
	// deterministic violation order: shortest path first
	sort.SliceStable(res.Violations, func(i, j int) bool {
		if len(res.Violations[i].Path) != len(res.Violations[j].Path) {
			return len(res.Violations[i].Path) < len(res.Violations[j].Path)
		}
		return fmt.Sprint(res.Violations[i].Path) < fmt.Sprint(res.Violations[j].Path)
	})
	res.Wall = time.Since(start)
	return res
}

// MaximalPaths returns the tree paths that are not a proper prefix of another tree path;
// replaying them visits every tree node.
func MaximalPaths(tree []TreeNode) [][]uint16 {
	isPrefix := map[string]bool{}
	key := func(p []uint16) string { return fmt.Sprint(p) }
	for _, n := range tree {
		if len(n.Path) > 0 {
			isPrefix[key(n.Path[:len(n.Path)-1])] = true
		}
	}
	var out [][]uint16
	for _, n := range tree {
		if !isPrefix[key(n.Path)] {
			out = append(out, n.Path)
		}
	}
	return out
}

// Index maps path key -> node for conformance lookups.
func Index(tree []TreeNode) map[string]TreeNode {
	m := make(map[string]TreeNode, len(tree))
	for _, n := range tree {
		m[fmt.Sprint(n.Path)] = n
	}
	return m
}
