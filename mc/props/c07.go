package props

import (
	"fmt"
	"math/big"
	"sync"
	"sync/atomic"
	"time"

	"c4emc/explore"
	"c4emc/harness"

	mtypes "github.com/chain4energy/c4e-chain/x/cfeminter/types"
	vtypes "github.com/chain4energy/c4e-chain/x/cfevesting/types"
	sdk "github.com/cosmos/cosmos-sdk/types"
	authtypes "github.com/cosmos/cosmos-sdk/x/auth/types"
	vestingtypes "github.com/cosmos/cosmos-sdk/x/auth/vesting/types"
	stakingtypes "github.com/cosmos/cosmos-sdk/x/staking/types"
)

func init() { Register(&Check{ID: "C07", Level: "exploration", Run: runC07}) }

type c07Case struct {
	OV         []string // original vesting per denom (denoms: uc4e, ubb)
	Dur        int64    // vesting duration in seconds
	Elapsed    int64    // seconds since vesting start (may be negative: not started)
	Amount     []string // split amount per denom ("" = not split)
	Deleg      string   // delegated vesting amount of uc4e ("" none)
	DelegEarly bool     // the delegation happened 90 days before the operation instead of in its block
	Undeleg    string   // part of the delegation that was undelegated again (unbonding completed) before the operation
	Op         string   // split | move | movedenoms:<mask>
	Second     string   // second split in the same block: "" | "s:<amt>" (from sender) | "r:<amt>" (from recipient)
	Family     string
}

var c07Denoms = []string{harness.Denom, denomB}

type c07Stats struct {
	cases, succeeded, compensation, partial, delegated, undelegated, multiDenom, chained int64
	maxDrift                                                                             int64
}

func bigOf(s string) sdk.Int { return mustInt(s) }

// c07Run executes one case on a branch of base and checks C07's statement.
func c07Run(w *harness.World, base sdk.Context, cs c07Case, st *c07Stats, report func(sig, what string)) {
	app := w.App
	start := harness.T0.Unix() + 100
	end := start + cs.Dur
	now := time.Unix(start+cs.Elapsed, 0).UTC()
	ctx := harness.Branch(base)
	hdr := ctx.BlockHeader()
	hdr.Time = now
	ctx = ctx.WithBlockHeader(hdr)
	from, to := harness.Addr("V"), harness.Addr("R1")

	ov := sdk.NewCoins()
	for i, s := range cs.OV {
		if s != "" && s != "0" {
			ov = ov.Add(sdk.NewCoin(c07Denoms[i], bigOf(s)))
		}
	}
	extra := sdk.NewCoins(sdk.NewInt64Coin(harness.Denom, 5))
	bacc := authtypes.NewBaseAccountWithAddress(from)
	bacc.AccountNumber = app.AccountKeeper.GetNextAccountNumber(ctx)
	va := vestingtypes.NewContinuousVestingAccountRaw(vestingtypes.NewBaseVestingAccount(bacc, ov, end), start)
	app.AccountKeeper.SetAccount(ctx, va)
	fund := ov.Add(extra...)
	if err := app.BankKeeper.MintCoins(ctx, mtypes.ModuleName, fund); err != nil {
		panic(err)
	}
	if err := app.BankKeeper.SendCoinsFromModuleToAccount(ctx, mtypes.ModuleName, from, fund); err != nil {
		panic(err)
	}
	if cs.Deleg != "" {
		val, found := app.StakingKeeper.GetValidator(ctx, harness.ValAddr())
		if !found {
			panic("validator missing")
		}
		dctx := ctx
		if cs.DelegEarly {
			// delegated 90 days before the operation, when all of the original vesting was still
			// vesting: by now the delegated-vesting amount exceeds what is still vesting
			dctx = ctx.WithBlockTime(now.Add(-90 * 24 * time.Hour))
		}
		if _, err := app.StakingKeeper.Delegate(dctx, from, bigOf(cs.Deleg), stakingtypes.Unbonded, val, true); err != nil {
			panic(err)
		}
		atomic.AddInt64(&st.delegated, 1)
		if cs.Undeleg != "" {
			// an earlier undelegation whose unbonding period is over: done on the same branch at block
			// times long before the operation (undelegate 60 days earlier, complete 30 days earlier)
			early := ctx.WithBlockTime(now.Add(-60 * 24 * time.Hour))
			if _, err := app.StakingKeeper.Undelegate(early, from, harness.ValAddr(), sdk.NewDecFromInt(bigOf(cs.Undeleg))); err != nil {
				panic(err)
			}
			if _, err := app.StakingKeeper.CompleteUnbonding(ctx.WithBlockTime(now.Add(-30*24*time.Hour)), from, harness.ValAddr()); err != nil {
				panic(err)
			}
			atomic.AddInt64(&st.undelegated, 1)
		}
	}
	lockedPre := app.BankKeeper.LockedCoins(ctx, from)
	spendPre := app.BankKeeper.SpendableCoins(ctx, from)
	accPre := app.AccountKeeper.GetAccount(ctx, from).(*vestingtypes.ContinuousVestingAccount)
	// what the sender alone would have locked later
	laterTimes := []int64{cs.Elapsed + 1, (cs.Elapsed + cs.Dur) / 2, cs.Dur - 1, cs.Dur}
	alone := make([]sdk.Coins, len(laterTimes))
	for i, lt := range laterTimes {
		alone[i] = accPre.GetVestingCoins(time.Unix(start+lt, 0))
	}

	var msg sdk.Msg
	amount := sdk.NewCoins()
	switch {
	case cs.Op == "split":
		for i, s := range cs.Amount {
			if s != "" {
				amount = amount.Add(sdk.NewCoin(c07Denoms[i], bigOf(s)))
			}
		}
		msg = vtypes.NewMsgSplitVesting(from.String(), to.String(), amount)
	case cs.Op == "move":
		amount = lockedPre
		msg = vtypes.NewMsgMoveAvailableVesting(from.String(), to.String())
	default: // movedenoms:<mask>, or movedenoms-x:<mask> with a denomination the sender holds nothing of listed first
		var mask int
		var ds []string
		if _, err := fmt.Sscanf(cs.Op, "movedenoms-x:%d", &mask); err == nil {
			ds = append(ds, "aaanothing")
		} else {
			fmt.Sscanf(cs.Op, "movedenoms:%d", &mask)
		}
		for i, d := range c07Denoms {
			if mask&(1<<uint(i)) != 0 {
				ds = append(ds, d)
				if lockedPre.AmountOf(d).IsPositive() {
					amount = amount.Add(sdk.NewCoin(d, lockedPre.AmountOf(d)))
				}
			}
		}
		msg = vtypes.NewMsgMoveAvailableVestingByDenoms(from.String(), to.String(), ds)
	}
	atomic.AddInt64(&st.cases, 1)
	if len(amount) > 1 {
		atomic.AddInt64(&st.multiDenom, 1)
	}
	post, out := w.ExecMsg(ctx, msg, harness.ExecOpts{})
	expectOK := !amount.IsZero() && amount.IsAllLTE(lockedPre)
	if out.Class == harness.Panic {
		report("panic", fmt.Sprintf("handler panicked: %s", firstLine(out.Log)))
		return
	}
	if expectOK && out.Class != harness.OK {
		report("refused", fmt.Sprintf("amount %s <= locked %s but the message failed: %s", amount, lockedPre, firstLine(out.Log)))
		return
	}
	if out.Class != harness.OK {
		return
	}
	atomic.AddInt64(&st.succeeded, 1)
	if !amount.IsEqual(lockedPre) {
		atomic.AddInt64(&st.partial, 1)
	}
	lockedPost := app.BankKeeper.LockedCoins(post, from)
	for _, d := range c07Denoms {
		dec := lockedPre.AmountOf(d).Sub(lockedPost.AmountOf(d))
		if !dec.Equal(amount.AmountOf(d)) {
			report("locked-delta", fmt.Sprintf("sender's locked %s decreased by %s, requested %s (locked before %s)", d, dec, amount.AmountOf(d), lockedPre.AmountOf(d)))
		}
	}
	if !coinsEq(app.BankKeeper.SpendableCoins(post, from), spendPre) {
		report("spendable-changed", fmt.Sprintf("sender's spendable balance changed from %s to %s", spendPre, app.BankKeeper.SpendableCoins(post, from)))
	}
	accPost := app.AccountKeeper.GetAccount(post, from).(*vestingtypes.ContinuousVestingAccount)
	for _, d := range c07Denoms {
		red := accPre.OriginalVesting.AmountOf(d).Sub(accPost.OriginalVesting.AmountOf(d))
		if amount.AmountOf(d).IsPositive() && !accPre.GetVestingCoins(now).AmountOf(d).IsZero() {
			// compensation branch taken when the truncated reduction alone would have fallen short
			q := new(big.Int).Mul(amount.AmountOf(d).BigInt(), accPre.OriginalVesting.AmountOf(d).BigInt())
			q.Quo(q, accPre.GetVestingCoins(now).AmountOf(d).BigInt())
			if red.BigInt().Cmp(q) > 0 {
				atomic.AddInt64(&st.compensation, 1)
			}
		}
	}
	racc, ok := app.AccountKeeper.GetAccount(post, to).(*vestingtypes.ContinuousVestingAccount)
	if !ok {
		report("recipient-type", fmt.Sprintf("recipient is %T", app.AccountKeeper.GetAccount(post, to)))
		return
	}
	wantStart := start
	if now.Unix() > start {
		wantStart = now.Unix()
	}
	if !coinsEq(racc.OriginalVesting, amount) || racc.EndTime != end || racc.StartTime != wantStart {
		report("recipient-schedule", fmt.Sprintf("recipient original vesting %s start %d end %d, expected %s start %d end %d", racc.OriginalVesting, racc.StartTime-start, racc.EndTime-start, amount, wantStart-start, end-start))
	}
	if !coinsEq(app.BankKeeper.LockedCoins(post, to), amount) {
		report("recipient-locked", fmt.Sprintf("recipient's locked coins are %s, expected %s", app.BankKeeper.LockedCoins(post, to), amount))
	}
	if !coinsEq(app.BankKeeper.GetAllBalances(post, to), amount) {
		report("recipient-balance", fmt.Sprintf("recipient holds %s, expected %s", app.BankKeeper.GetAllBalances(post, to), amount))
	}
	splits := int64(1)
	final := post
	// optional second split in the same block
	if cs.Second != "" {
		var who string
		var amt string
		fmt.Sscanf(cs.Second, "%1s:%s", &who, &amt)
		src := from
		if who == "r" {
			src = to
		}
		l2 := app.BankKeeper.LockedCoins(post, src)
		a2 := sdk.NewCoins(sdk.NewCoin(harness.Denom, bigOf(amt)))
		if a2.IsAllLTE(l2) {
			p2, o2 := w.ExecMsg(post, vtypes.NewMsgSplitVesting(src.String(), harness.AddrS("R2"), a2), harness.ExecOpts{})
			if o2.Class != harness.OK {
				report("refused-second", fmt.Sprintf("second split of %s (locked %s) failed: %s", a2, l2, firstLine(o2.Log)))
			} else {
				atomic.AddInt64(&st.chained, 1)
				l3 := app.BankKeeper.LockedCoins(p2, src)
				if !l2.AmountOf(harness.Denom).Sub(l3.AmountOf(harness.Denom)).Equal(a2.AmountOf(harness.Denom)) {
					report("locked-delta-second", fmt.Sprintf("second split: locked decreased by %s, requested %s", l2.AmountOf(harness.Denom).Sub(l3.AmountOf(harness.Denom)), a2))
				}
				final = p2
				splits = 2
			}
		}
	}
	// schedule preserved at later instants
	for i, lt := range laterTimes {
		if lt <= cs.Elapsed {
			continue
		}
		c := final.WithBlockTime(time.Unix(start+lt, 0))
		for _, d := range c07Denoms {
			sum := vestingOf(app.AccountKeeper.GetAccount(c, from), c.BlockTime()).AmountOf(d).Add(vestingOf(app.AccountKeeper.GetAccount(c, to), c.BlockTime()).AmountOf(d))
			if splits == 2 {
				sum = sum.Add(vestingOf(app.AccountKeeper.GetAccount(c, harness.Addr("R2")), c.BlockTime()).AmountOf(d))
			}
			drift := sum.Sub(alone[i].AmountOf(d)).Abs()
			if drift.IsInt64() {
				for {
					cur := atomic.LoadInt64(&st.maxDrift)
					if drift.Int64() <= cur || atomic.CompareAndSwapInt64(&st.maxDrift, cur, drift.Int64()) {
						break
					}
				}
			}
			// 4 base units per split for the repository's own roundings, plus what the SDK's vesting
			// formula itself loses above 1e18 (it rounds the time ratio to 18 decimals: +-OV*0.5e-18 per evaluation)
			tol := sdk.NewInt(4 * splits).Add(sdk.NewIntFromBigInt(new(big.Int).Quo(accPre.OriginalVesting.AmountOf(d).BigInt(), pow10(18))).MulRaw(2))
			if drift.GT(tol) {
				report("schedule-drift", fmt.Sprintf("at +%ds the accounts together have %s%s locked, the sender alone would have had %s", lt, sum, d, alone[i].AmountOf(d)))
			}
		}
	}
}

func vestingOf(a authtypes.AccountI, t time.Time) sdk.Coins {
	if va, ok := a.(*vestingtypes.ContinuousVestingAccount); ok {
		return va.GetVestingCoins(t)
	}
	return sdk.NewCoins()
}

func pow10(n int) *big.Int { return new(big.Int).Exp(big.NewInt(10), big.NewInt(int64(n)), nil) }

func elapsedGrid(dur int64) []int64 {
	g := []int64{0, 1, dur / 3, dur / 2, (2*dur + 2) / 3, dur - 1, -5}
	seen := map[int64]bool{}
	var out []int64
	for _, e := range g {
		if e < dur && !seen[e] {
			seen[e] = true
			out = append(out, e)
		}
	}
	return out
}

// c07Dense: every original vesting 1..maxOV, every split amount 1..locked.
func c07Dense(maxOV int64, emit func(c07Case)) {
	for _, dur := range []int64{2, 3, 7, 1000} {
		for _, el := range elapsedGrid(dur) {
			for ov := int64(1); ov <= maxOV; ov++ {
				// locked at elapsed (bankers rounding of vested) is computed by the implementation; enumerate up to ov
				for a := int64(1); a <= ov; a++ {
					emit(c07Case{OV: []string{fmt.Sprint(ov)}, Dur: dur, Elapsed: el, Amount: []string{fmt.Sprint(a)}, Op: "split", Family: "dense"})
				}
				emit(c07Case{OV: []string{fmt.Sprint(ov)}, Dur: dur, Elapsed: el, Op: "move", Family: "dense-move"})
			}
		}
	}
}

func c07Structured(emit func(c07Case)) {
	// a cliff: start == end, everything locked up to and including that instant (Dur 0, now before it)
	for _, el := range []int64{-50, -1, 0} {
		for _, ov := range []int64{1, 9, 100} {
			for _, a := range []int64{1, ov / 2, ov} {
				if a > 0 {
					emit(c07Case{OV: []string{fmt.Sprint(ov)}, Dur: 0, Elapsed: el, Amount: []string{fmt.Sprint(a)}, Op: "split", Family: "cliff"})
				}
			}
			emit(c07Case{OV: []string{fmt.Sprint(ov), "7"}, Dur: 0, Elapsed: el, Op: "move", Family: "cliff"})
			emit(c07Case{OV: []string{fmt.Sprint(ov), "7"}, Dur: 0, Elapsed: el, Op: "movedenoms:2", Family: "cliff"})
		}
	}
	// two denominations, delegations, chains
	for _, dur := range []int64{7, 1000} {
		for _, el := range elapsedGrid(dur) {
			for _, ov := range []int64{1, 2, 9, 10, 37, 100} {
				for _, ovb := range []int64{1, 7, 50} {
					for _, a := range []int64{1, ov / 2, ov} {
						for _, ab := range []int64{0, 1, ovb} {
							if a == 0 {
								continue
							}
							am := []string{fmt.Sprint(a), ""}
							if ab > 0 {
								am[1] = fmt.Sprint(ab)
							}
							emit(c07Case{OV: []string{fmt.Sprint(ov), fmt.Sprint(ovb)}, Dur: dur, Elapsed: el, Amount: am, Op: "split", Family: "two-denoms"})
						}
					}
					for mask := 1; mask <= 3; mask++ {
						emit(c07Case{OV: []string{fmt.Sprint(ov), fmt.Sprint(ovb)}, Dur: dur, Elapsed: el, Op: fmt.Sprintf("movedenoms:%d", mask), Family: "move-by-denoms"})
						emit(c07Case{OV: []string{fmt.Sprint(ov), fmt.Sprint(ovb)}, Dur: dur, Elapsed: el, Op: fmt.Sprintf("movedenoms-x:%d", mask), Family: "move-by-denoms-with-unheld-denom"})
					}
					emit(c07Case{OV: []string{fmt.Sprint(ov), fmt.Sprint(ovb)}, Dur: dur, Elapsed: el, Op: "move", Family: "move-two-denoms"})
				}
				for _, dl := range []int64{1, ov / 2, ov - 1} {
					if dl <= 0 || dl > ov {
						continue
					}
					for a := int64(1); a <= ov; a++ {
						emit(c07Case{OV: []string{fmt.Sprint(ov)}, Dur: dur, Elapsed: el, Amount: []string{fmt.Sprint(a)}, Deleg: fmt.Sprint(dl), Op: "split", Family: "delegated"})
					}
					emit(c07Case{OV: []string{fmt.Sprint(ov)}, Dur: dur, Elapsed: el, Deleg: fmt.Sprint(dl), Op: "move", Family: "delegated-move"})
				}
				// delegation larger than what is vesting (delegated-free tracked too), and delegations that
				// were partly undelegated again before the operation; second denomination still locked
				for _, dl := range []int64{ov + 3, ov} {
					for _, ud := range []int64{0, 1, dl / 2, dl} {
						if ud > 0 && ud > dl {
							continue
						}
						c := c07Case{OV: []string{fmt.Sprint(ov), "7"}, Dur: dur, Elapsed: el, Deleg: fmt.Sprint(dl), DelegEarly: true, Family: "delegated-then-undelegated"}
						if ud > 0 {
							c.Undeleg = fmt.Sprint(ud)
						}
						for _, am := range [][]string{{"", "1"}, {"", "7"}, {"1", ""}, {fmt.Sprint(ov), "7"}} {
							cc := c
							cc.Amount, cc.Op = am, "split"
							emit(cc)
						}
						cm := c
						cm.Op = "move"
						emit(cm)
						cd := c
						cd.Op = "movedenoms:2"
						emit(cd)
					}
				}
				for a := int64(1); a <= ov; a++ {
					for _, sec := range []string{"s:1", fmt.Sprintf("s:%d", ov/3+1), "r:1", fmt.Sprintf("r:%d", a)} {
						emit(c07Case{OV: []string{fmt.Sprint(ov)}, Dur: dur, Elapsed: el, Amount: []string{fmt.Sprint(a)}, Op: "split", Second: sec, Family: "chain"})
					}
				}
			}
		}
	}
}

// c07Boundary: magnitudes named by the property, amounts placed on every rounding edge of amount*OV/V.
func c07Boundary(thorough bool, emit func(c07Case)) {
	mags := []*big.Int{pow10(15), pow10(16), new(big.Int).Mul(big.NewInt(3), pow10(16)), pow10(17), new(big.Int).Mul(big.NewInt(7), pow10(17)), pow10(18), new(big.Int).Mul(big.NewInt(2), pow10(18)), new(big.Int).Mul(big.NewInt(4), pow10(18)), new(big.Int).Mul(big.NewInt(9), pow10(18)), pow10(19), new(big.Int).Mul(big.NewInt(3), pow10(19)), pow10(20), pow10(24), pow10(30)}
	// 3, 7, 11 give time ratios that are not finite 18-decimal fractions (x/1000 always is)
	durs := []int64{2, 3, 7, 1000}
	if thorough {
		durs = []int64{2, 3, 7, 11, 13, 1000, 86400}
	}
	for _, m := range mags {
		for off := int64(-3); off <= 3; off++ {
			ov := new(big.Int).Add(m, big.NewInt(off))
			for _, dur := range durs {
				els := elapsedGrid(dur)
				if dur <= 13 {
					els = nil
					for e := int64(0); e < dur; e++ {
						els = append(els, e)
					}
				}
				for _, el := range els {
					if el < 0 {
						continue
					}
					// V (still vesting) at elapsed el: OV - round(OV*el/dur)
					vested := new(big.Rat).Mul(new(big.Rat).SetInt(ov), big.NewRat(el, dur))
					vr := roundHalfEven(vested)
					V := new(big.Int).Sub(ov, vr)
					if V.Sign() <= 0 {
						continue
					}
					amts := map[string]bool{}
					add := func(x *big.Int) {
						if x.Sign() > 0 && x.Cmp(V) <= 0 {
							amts[x.String()] = true
						}
					}
					for _, k := range []int64{1, 2, 3} {
						add(big.NewInt(k))
						add(new(big.Int).Sub(V, big.NewInt(k-1)))
					}
					add(new(big.Int).Quo(V, big.NewInt(2)))
					add(new(big.Int).Add(new(big.Int).Quo(V, big.NewInt(2)), big.NewInt(1)))
					add(new(big.Int).Quo(V, big.NewInt(3)))
					add(new(big.Int).Quo(new(big.Int).Mul(V, big.NewInt(2)), big.NewInt(3)))
					// u with u*OV = +-r (mod V): quotient within 1e-18 of an integer from either side
					if V.Cmp(big.NewInt(1)) > 0 {
						g := new(big.Int)
						x := new(big.Int)
						g.GCD(x, nil, new(big.Int).Mod(ov, V), V)
						if g.Cmp(big.NewInt(1)) == 0 {
							for _, r := range []int64{1, 2, 3, -1, -2, -3} {
								u := new(big.Int).Mul(x, big.NewInt(r))
								u.Mod(u, V)
								add(u)
							}
						}
					}
					for a := range amts {
						emit(c07Case{OV: []string{ov.String()}, Dur: dur, Elapsed: el, Amount: []string{a}, Op: "split", Family: "boundary"})
					}
				}
			}
		}
	}
	// the pattern OV = 2V-1 (odd), half elapsed, above 2e18
	for _, v := range []string{"2000000000000000001", "4500000000000000000", "46888258324253990959", "50000000000000000001", "500000000000000000000001"} {
		V, _ := new(big.Int).SetString(v, 10)
		ov := new(big.Int).Sub(new(big.Int).Mul(V, big.NewInt(2)), big.NewInt(1))
		for _, a := range []string{"1", "2", "3", "7"} {
			emit(c07Case{OV: []string{ov.String()}, Dur: 2, Elapsed: 1, Amount: []string{a}, Op: "split", Family: "boundary-odd"})
			emit(c07Case{OV: []string{ov.String()}, Dur: 1000, Elapsed: 500, Amount: []string{a}, Op: "split", Family: "boundary-odd"})
		}
	}
}

func roundHalfEven(r *big.Rat) *big.Int {
	fl := new(big.Int)
	m := new(big.Int)
	fl.DivMod(r.Num(), r.Denom(), m)
	twice := new(big.Int).Mul(m, big.NewInt(2))
	switch twice.Cmp(r.Denom()) {
	case 1:
		return fl.Add(fl, big.NewInt(1))
	case 0:
		if fl.Bit(0) == 1 {
			return fl.Add(fl, big.NewInt(1))
		}
	}
	return fl
}

func runC07(rc *RunCtx) {
	maxOV := int64(60)
	if rc.Thorough() {
		maxOV = 400
	}
	var cases []c07Case
	emit := func(c c07Case) { cases = append(cases, c) }
	c07Dense(maxOV, emit)
	c07Structured(emit)
	c07Boundary(rc.Thorough(), emit)
	genesis := harness.BuildGenesis(harness.Genesis{})
	worlds := make([]*harness.World, rc.Workers)
	bases := make([]sdk.Context, rc.Workers)
	var st c07Stats
	fam := map[string]int{}
	for _, c := range cases {
		fam[c.Family]++
	}
	var mu sync.Mutex
	var samples []interface{}
	ParallelFor(rc.Workers, len(cases), func(wk, i int) {
		if worlds[wk] == nil {
			worlds[wk] = harness.NewWorld(genesis, harness.T0)
			bases[wk] = worlds[wk].Root()
		}
		cs := cases[i]
		c07Run(worlds[wk], bases[wk], cs, &st, func(sig, what string) {
			rc.Violate(&explore.Violation{Property: "C07", Sig: "C07:" + sig + ":" + cs.Family, What: fmt.Sprintf("OV=%v dur=%ds elapsed=%ds %s amount=%v deleg=%s second=%s: %s", cs.OV, cs.Dur, cs.Elapsed, cs.Op, cs.Amount, cs.Deleg, cs.Second, what), Detail: cs})
		})
		if i%(len(cases)/6+1) == 0 {
			mu.Lock()
			samples = append(samples, cs)
			mu.Unlock()
		}
	})
	rc.Level = "exploration"
	rc.Cov = map[string]interface{}{
		"evaluations": int(st.cases), "distinct_nontrivial": int(st.succeeded),
		"rule":    "complete enumeration of the listed families (dense: every original vesting 1..N x every amount 1..OV x elapsed grid x 4 durations; structured: two denominations, delegated vesting (also above what is vesting, also partly undelegated again before the operation), move / move-by-denoms for every denom subset, chains of two splits; boundary: magnitudes 1e18..1e30 with amounts on every rounding edge of amount*OV/V). Every case is a distinct input; non-trivial = the split/move was accepted and all post-conditions were evaluated.",
		"samples": samples, "families": fam, "cases_with_partial_amount": int(st.partial), "cases_taking_compensation_branch": int(st.compensation),
		"cases_with_delegated_vesting": int(st.delegated), "cases_with_an_earlier_completed_undelegation": int(st.undelegated), "cases_with_two_denoms": int(st.multiDenom), "chained_second_splits": int(st.chained),
		"max_schedule_drift_observed": int(st.maxDrift), "dense_max_original_vesting": maxOV, "exhaustive": true,
	}
	rc.Assume = []string{"message level: the handler from the real router on store branches; vesting accounts built with the SDK constructors; delegations through the real staking keeper"}
}
