package props

import (
	"fmt"
	"time"

	"c4emc/harness"
	"c4emc/ref"

	dtypes "github.com/chain4energy/c4e-chain/x/cfedistributor/types"
	mtypes "github.com/chain4energy/c4e-chain/x/cfeminter/types"
	vtypes "github.com/chain4energy/c4e-chain/x/cfevesting/types"
	sdk "github.com/cosmos/cosmos-sdk/types"
	authtypes "github.com/cosmos/cosmos-sdk/x/auth/types"
	vestingtypes "github.com/cosmos/cosmos-sdk/x/auth/vesting/types"
	banktypes "github.com/cosmos/cosmos-sdk/x/bank/types"
)

func init() { Register(&Check{ID: "C10", Level: "model_checking", Run: runC10}) }

func c10MinterCfg() mintCfg {
	return mintCfg{Periods: []mp{
		{Kind: ref.Linear, Amount: "1000", End: 30 * time.Second},
		{Kind: ref.ExpStep, Amount: "100", Step: 10 * time.Second, Mult: "0.5", End: 70 * time.Second},
		{Kind: ref.NoMint}}}
}

func c10Genesis() harness.Genesis {
	t0 := harness.T0.Unix()
	g := c13Genesis()
	g.Minter = c10MinterCfg().Genesis(harness.T0)
	locked := vestingtypes.NewContinuousVestingAccountRaw(vestingtypes.NewBaseVestingAccount(authtypes.NewBaseAccountWithAddress(harness.Addr("LOCKED")), coins(50), t0+100000), t0)
	g.Accounts = append(g.Accounts, locked)
	g.ExtraBal = append(g.ExtraBal, banktypes.Balance{Address: harness.AddrS("LOCKED"), Coins: coins(50)})
	return g
}

// restartEv: export the custom modules' genesis, JSON round trip, wipe the module stores, import.
// If the export does not validate or the import panics the state is not reachable through a
// restart (that is C12's business) and the event is not enabled.
func restartEv() Ev {
	return Ev{Name: "restart(export->import)", Custom: func(w *harness.World, ctx sdk.Context) (sdk.Context, harness.Outcome, bool) {
		cc, reps := w.RestartModules(ctx)
		for _, r := range reps {
			if r.ImportPanic != "" || r.ValidateErr != nil {
				return ctx, harness.Outcome{}, false
			}
		}
		return cc, harness.Outcome{Class: harness.OK}, true
	}}
}

func c10Events(thorough bool) []Ev {
	evs := []Ev{{Name: "block+1ms", Block: time.Millisecond}, {Name: "block+1s", Block: time.Second}, {Name: "block+10s", Block: 10 * time.Second}, {Name: "block+100s", Block: 100 * time.Second}}
	gov := harness.GovAuthority()
	base := c10MinterCfg()
	mEv := func(name string, denom string, c mintCfg, fix func(p *mtypes.Params)) {
		evs = append(evs, Ev{Name: "gov:minter(" + name + ")", Gov: true, Build: func(v View) (sdk.Msg, string) {
			p := c.Params()
			if fix != nil {
				fix(&p)
			}
			if denom != "" {
				return &mtypes.MsgUpdateParams{Authority: gov, MintDenom: denom, StartTime: p.StartTime, Minters: p.Minters}, ""
			}
			return &mtypes.MsgUpdateMintersParams{Authority: gov, StartTime: p.StartTime, Minters: p.Minters}, ""
		}})
	}
	withStart := func(d time.Duration) mintCfg { c := base; c.Start = d; return c }
	mEv("start+50s", "", withStart(20*time.Second), nil)
	mEv("start-100s", "", withStart(-100*time.Second), nil)
	mEv("first-period-ends@5s", "", mintCfg{Periods: []mp{withEnd(base.Periods[0], 5*time.Second), base.Periods[1], base.Periods[2]}}, nil)
	mEv("first-period-ends@300s", "", mintCfg{Periods: []mp{withEnd(base.Periods[0], 300*time.Second), withEnd(base.Periods[1], 400*time.Second), base.Periods[2]}}, nil)
	mEv("drop-first-period", "", base, func(p *mtypes.Params) { p.Minters = p.Minters[1:] })
	mEv("only-first-as-none", "", mintCfg{Periods: []mp{{Kind: ref.NoMint}}}, nil)
	mEv("add-fourth", "", mintCfg{Periods: []mp{base.Periods[0], base.Periods[1], withEnd(mp{Kind: ref.Linear, Amount: "7"}, 90*time.Second), {Kind: ref.ExpStep, Amount: "3", Step: time.Second, Mult: "1"}}}, nil)
	mEv("ids-from-2", "", base, func(p *mtypes.Params) {
		for _, m := range p.Minters {
			m.SequenceId++
		}
	})
	mEv("huge-exp", "", mintCfg{Periods: []mp{{Kind: ref.ExpStep, Amount: "100000000000000000000000000000000000", Step: time.Second, Mult: "1", End: 30 * time.Second}, {Kind: ref.Linear, Amount: "0", End: 70 * time.Second}, {Kind: ref.NoMint}}}, nil)
	mEv("denom-x", "x", base, nil)
	mEv("denom-1abc", "1abc", base, nil)
	mEv("denom-other", "stake", base, nil)
	// a denomination nobody holds yet, under an open-ended exponential period: until the first coin
	// is minted its supply is zero
	mEv("exp-only,fresh-denom", "ufresh", mintCfg{Periods: []mp{{Kind: ref.ExpStep, Amount: "100", Step: 10 * time.Second, Mult: "0.5"}}}, nil)

	// housekeeping a governance would do: remove the periods that have ended, the current one becomes
	// the first configured (start time = its real start, so the schedule itself does not change)
	evs = append(evs, Ev{Name: "gov:minter(drop-ended-periods)", Gov: true, Build: func(v View) (sdk.Msg, string) {
		p := v.App.CfeminterKeeper.GetParams(v.Ctx)
		cur := v.App.CfeminterKeeper.GetMinterState(v.Ctx).SequenceId
		var keep []*mtypes.Minter
		start := p.StartTime
		for _, m := range p.Minters {
			if m.SequenceId < cur {
				if m.EndTime != nil {
					start = *m.EndTime
				}
				continue
			}
			keep = append(keep, m)
		}
		if len(keep) == len(p.Minters) || len(keep) == 0 {
			return nil, ""
		}
		return &mtypes.MsgUpdateMintersParams{Authority: gov, StartTime: start, Minters: keep}, ""
	}})

	u2 := dAcc(aU("U2"))
	blockedDest := dtypes.Account{Id: harness.ModAddr(authtypes.FeeCollectorName).String(), Type: dtypes.BaseAccount}
	lockedSrc := &dtypes.Account{Id: harness.AddrS("LOCKED"), Type: dtypes.BaseAccount}
	mainSrc := &dtypes.Account{Id: "", Type: dtypes.Main}
	dEv := func(name string, subs []dtypes.SubDistributor) {
		evs = append(evs, Ev{Name: "gov:distr(" + name + ")", Gov: true, Build: func(v View) (sdk.Msg, string) {
			return &dtypes.MsgUpdateParams{Authority: gov, SubDistributors: subs}, ""
		}})
	}
	dEv("locked-source+blocked-dest", []dtypes.SubDistributor{{Name: "a", Sources: []*dtypes.Account{lockedSrc, mainSrc},
		Destinations: dtypes.Destinations{PrimaryShare: blockedDest, BurnShare: sdk.MustNewDecFromStr("0.5"), Shares: []*dtypes.DestinationShare{{Name: "s", Share: sdk.MustNewDecFromStr("0.333333333333333333"), Destination: u2}}}}})
	dEv("fee->main,main->burn", []dtypes.SubDistributor{
		{Name: "a", Sources: []*dtypes.Account{{Id: authtypes.FeeCollectorName, Type: dtypes.ModuleAccount}}, Destinations: dtypes.Destinations{PrimaryShare: dAcc(aMAIN), BurnShare: sdk.ZeroDec(), Shares: []*dtypes.DestinationShare{{Name: "s", Share: sdk.MustNewDecFromStr("0.5"), Destination: dAcc(aI1)}}}},
		{Name: "b", Sources: []*dtypes.Account{{Id: "i1", Type: dtypes.InternalAccount}, mainSrc}, Destinations: dtypes.Destinations{PrimaryShare: dAcc(aVRC), BurnShare: sdk.MustNewDecFromStr("0.99")}}})
	// an internal account named like a module account: the two share an id, not a type
	gebInternal := dtypes.Account{Id: dtypes.GreenEnergyBoosterCollector, Type: dtypes.InternalAccount}
	dEv("internal-and-module-account-share-an-id", []dtypes.SubDistributor{
		{Name: "a", Sources: []*dtypes.Account{{Id: authtypes.FeeCollectorName, Type: dtypes.ModuleAccount}, mainSrc}, Destinations: dtypes.Destinations{PrimaryShare: gebInternal, BurnShare: sdk.ZeroDec(),
			Shares: []*dtypes.DestinationShare{{Name: "s", Share: sdk.MustNewDecFromStr("0.333333333333333333"), Destination: dAcc(aMgeb)}}}},
		{Name: "b", Sources: []*dtypes.Account{&gebInternal}, Destinations: dtypes.Destinations{PrimaryShare: u2, BurnShare: sdk.ZeroDec()}}})
	dEv("main-only", []dtypes.SubDistributor{{Name: "only", Sources: []*dtypes.Account{mainSrc}, Destinations: dtypes.Destinations{PrimaryShare: u2, BurnShare: sdk.ZeroDec()}}})
	evs = append(evs,
		Ev{Name: "gov:distr.sub(main->burn-only)", Gov: true, Build: func(v View) (sdk.Msg, string) {
			return &dtypes.MsgUpdateSubDistributorParam{Authority: gov, SubDistributor: &dtypes.SubDistributor{Name: "main", Sources: []*dtypes.Account{{Id: "i1", Type: dtypes.InternalAccount}, mainSrc},
				Destinations: dtypes.Destinations{PrimaryShare: blockedDest, BurnShare: sdk.MustNewDecFromStr("0.9")}}}, ""
		}},
		Ev{Name: "gov:distr.share(dev=0.899)", Gov: true, Build: func(v View) (sdk.Msg, string) {
			return &dtypes.MsgUpdateSubDistributorDestinationShareParam{Authority: gov, SubDistributorName: "fees", DestinationName: "dev", Share: sdk.MustNewDecFromStr("0.899")}, ""
		}},
		Ev{Name: "gov:distr.burn(main=0.79)", Gov: true, Build: func(v View) (sdk.Msg, string) {
			return &dtypes.MsgUpdateSubDistributorBurnShareParam{Authority: gov, SubDistributorName: "main", BurnShare: sdk.MustNewDecFromStr("0.79")}, ""
		}},
		Ev{Name: "tx-with-fee(A,7)", Fee: coins(7), Build: func(v View) (sdk.Msg, string) {
			return vtypes.NewMsgWithdrawAllAvailable(harness.AddrS("A")), "A"
		}},
		restartEv(),
	)
	return evs
}

func runC10(rc *RunCtx) {
	scn := &Scenario{Name: "c10", Genesis: harness.BuildGenesis(c10Genesis()), T0: harness.T0, Events: c10Events(rc.Thorough()), BlockPanicProperty: "C10"}
	depth, budget, maxTraces := 4, 120*time.Second, 1500
	if rc.Thorough() {
		depth, budget, maxTraces = 6, 25*time.Minute, 20000
	}
	res := runScenarioCheck(rc, scn, depth, budget, maxTraces, "")
	panics := 0
	for _, m := range res.PerEvent {
		panics += m["panic"]
	}
	rc.Cov["block_transitions_that_panicked"] = panics
	rc.Assume = append(rc.Assume, fmt.Sprintf("parameter sets within the property's bounds (amounts < 1e36, steps >= 1s, multipliers <= 1), all filtered by the real validation"))
}
