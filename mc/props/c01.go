package props

import (
	"fmt"
	"math/big"
	"time"

	"c4emc/explore"
	"c4emc/harness"
	"c4emc/ref"

	dtypes "github.com/chain4energy/c4e-chain/x/cfedistributor/types"
	mtypes "github.com/chain4energy/c4e-chain/x/cfeminter/types"
	sigtypes "github.com/chain4energy/c4e-chain/x/cfesignature/types"
	vtypes "github.com/chain4energy/c4e-chain/x/cfevesting/types"
	sdk "github.com/cosmos/cosmos-sdk/types"
	authtypes "github.com/cosmos/cosmos-sdk/x/auth/types"
	banktypes "github.com/cosmos/cosmos-sdk/x/bank/types"
)

func init() { Register(&Check{ID: "C01", Level: "model_checking", Run: runC01}) }

type c01Aux struct {
	sched         *ref.Schedule // the scenario's emission schedule (closed form)
	minterUpdated bool          // a governance update replaced the schedule: the closed form no longer applies
	minted        *big.Int
	dm            *ref.DistModel // what the fee-distribution configuration says should happen to the coins
}

// subsFromParams turns stored distributor parameters into the reference model's configuration.
func subsFromParams(p dtypes.Params) []ref.DSub {
	var out []ref.DSub
	for _, sd := range p.SubDistributors {
		d := ref.DSub{Name: sd.Name, Primary: ref.DAccount{Type: sd.Destinations.PrimaryShare.Type, ID: sd.Destinations.PrimaryShare.Id}, Burn: sd.Destinations.BurnShare.BigInt()}
		for _, a := range sd.Sources {
			d.Sources = append(d.Sources, ref.DAccount{Type: a.Type, ID: a.Id})
		}
		for _, sh := range sd.Destinations.Shares {
			d.Shares = append(d.Shares, ref.DShare{Name: sh.Name, Dest: ref.DAccount{Type: sh.Destination.Type, ID: sh.Destination.Id}, Share: sh.Share.BigInt()})
		}
		out = append(out, d)
	}
	return out
}

func amtOfCoins(c sdk.Coins) ref.Amt {
	a := ref.Amt{}
	for _, x := range c {
		a[x.Denom] = x.Amount.BigInt()
	}
	return a
}

func c01Genesis() harness.Genesis {
	g := c13Genesis()
	g.Balances = map[string]sdk.Coins{"A": coins(100), "B": sdk.NewCoins(sdk.NewInt64Coin(harness.Denom, 50), sdk.NewInt64Coin(denomB, 5)), "U1": coins(0), "U2": coins(0)}
	g.Vesting.VestingTypes = append(g.Vesting.VestingTypes, vtypes.GenesisVestingType{Name: "t0", LockupPeriod: 3, LockupPeriodUnit: "second", VestingPeriod: 6, VestingPeriodUnit: "second", Free: sdk.ZeroDec()})
	return g
}

func c01Events() []Ev {
	gov := harness.GovAuthority()
	evs := []Ev{{Name: "block+1s", Block: time.Second}, {Name: "block+7s", Block: 7 * time.Second}, {Name: "block+40s", Block: 40 * time.Second}}
	vc := vestCfg{owners: []string{"A"}, pools: []string{"p"}, poolSpecs: []poolSpec{{10, 5 * time.Second, "t5"}}, sendAmts: []string{"3", "rem+1"}, withExtra: true}
	for _, e := range vestEvents(vc) {
		if e.Block == 0 {
			evs = append(evs, e)
		}
	}
	evs = append(evs,
		Ev{Name: "pool(A,q,bal+1)", Build: func(v View) (sdk.Msg, string) {
			b := v.App.BankKeeper.GetBalance(v.Ctx, harness.Addr("A"), harness.Denom).Amount.AddRaw(1)
			return vtypes.NewMsgCreateVestingPool(harness.AddrS("A"), "q", b, 5*time.Second, "t5"), "A"
		}},
		Ev{Name: "sig.publish(link)", Build: func(v View) (sdk.Msg, string) {
			return &sigtypes.MsgPublishReferencePayloadLink{Creator: harness.AddrS("B"), Key: "k1", Value: "v1"}, "B"
		}},
		Ev{Name: "sig.store(sig)", Build: func(v View) (sdk.Msg, string) {
			return &sigtypes.MsgStoreSignature{Creator: harness.AddrS("B"), StorageKey: "sk1", SignatureJSON: `{"signature":"AA==","algorithm":"x","certificate":"y"}`}, "B"
		}},
		Ev{Name: "tx-with-fee(B,7)", Fee: coins(7), Build: func(v View) (sdk.Msg, string) {
			return vtypes.NewMsgWithdrawAllAvailable(harness.AddrS("B")), "B"
		}},
		// a fee in a second denomination: its sub-unit shares stay on the books of burn and destinations
		Ev{Name: "tx-with-fee(B,1ubb)", Fee: sdk.NewCoins(sdk.NewInt64Coin(denomB, 1)), Build: func(v View) (sdk.Msg, string) {
			return vtypes.NewMsgWithdrawAllAvailable(harness.AddrS("B")), "B"
		}},
		Ev{Name: "gov:minter(valid3)", Gov: true, Build: func(v View) (sdk.Msg, string) {
			c := mintCfg{Periods: []mp{{Kind: ref.Linear, Amount: "1000", End: 30 * time.Second}, {Kind: ref.ExpStep, Amount: "50", Step: 10 * time.Second, Mult: "1", End: 90 * time.Second}, {Kind: ref.NoMint}}}
			p := c.Params()
			return &mtypes.MsgUpdateMintersParams{Authority: gov, StartTime: p.StartTime, Minters: p.Minters}, ""
		}},
		Ev{Name: "gov:distr(blocked-dest)", Gov: true, Build: func(v View) (sdk.Msg, string) {
			blocked := dtypes.Account{Id: harness.ModAddr(authtypes.FeeCollectorName).String(), Type: dtypes.BaseAccount}
			return &dtypes.MsgUpdateParams{Authority: gov, SubDistributors: []dtypes.SubDistributor{{Name: "only", Sources: []*dtypes.Account{{Id: "", Type: dtypes.Main}},
				Destinations: dtypes.Destinations{PrimaryShare: dAcc(aVRC), BurnShare: sdk.MustNewDecFromStr("0.2"), Shares: []*dtypes.DestinationShare{{Name: "undeliverable", Share: sdk.MustNewDecFromStr("0.3"), Destination: blocked}}}}}}, ""
		}},
		Ev{Name: "gov:distr.burn(fees=0.5)", Gov: true, Build: func(v View) (sdk.Msg, string) {
			return &dtypes.MsgUpdateSubDistributorBurnShareParam{Authority: gov, SubDistributorName: "fees", BurnShare: sdk.MustNewDecFromStr("0.5")}, ""
		}},
	)
	return evs
}

func supplyMap(w *harness.World, ctx sdk.Context) map[string]sdk.Int {
	m := map[string]sdk.Int{}
	w.App.BankKeeper.IterateTotalSupply(ctx, func(c sdk.Coin) bool { m[c.Denom] = c.Amount; return false })
	return m
}

func balancesMap(w *harness.World, ctx sdk.Context) map[string]sdk.Coins {
	m := map[string]sdk.Coins{}
	w.App.BankKeeper.IterateAllBalances(ctx, func(a sdk.AccAddress, c sdk.Coin) bool {
		m[a.String()] = m[a.String()].Add(c)
		return false
	})
	return m
}

func c01State(w *harness.World, ctx sdk.Context, aux interface{}) []*explore.Violation {
	var vs []*explore.Violation
	sum := sdk.NewCoins()
	for _, c := range balancesMap(w, ctx) {
		sum = sum.Add(c...)
	}
	for d, s := range supplyMap(w, ctx) {
		if !sum.AmountOf(d).Equal(s) {
			vs = append(vs, &explore.Violation{Property: "C01", Sig: "C01:supply-vs-balances", What: fmt.Sprintf("supply of %s is %s but all balances add up to %s", d, s, sum.AmountOf(d))})
		}
	}
	for _, c := range sum {
		if _, ok := supplyMap(w, ctx)[c.Denom]; !ok {
			vs = append(vs, &explore.Violation{Property: "C01", Sig: "C01:supply-vs-balances", What: fmt.Sprintf("balances of %s exist (%s) without supply", c.Denom, c.Amount)})
		}
	}
	return vs
}

func c01Step(si *StepInfo) (interface{}, []*explore.Violation) {
	aux := si.Aux.(*c01Aux)
	var vs []*explore.Violation
	bad := func(sig, f string, a ...interface{}) {
		vs = append(vs, &explore.Violation{Property: "C01", Sig: "C01:" + sig, What: si.Ev.Name + ": " + fmt.Sprintf(f, a...)})
	}
	w := si.W
	preS, postS := supplyMap(w, si.Pre), supplyMap(w, si.Post)
	delta := func(d string) sdk.Int {
		a, b := sdk.ZeroInt(), sdk.ZeroInt()
		if x, ok := preS[d]; ok {
			a = x
		}
		if x, ok := postS[d]; ok {
			b = x
		}
		return b.Sub(a)
	}
	denoms := map[string]bool{}
	for d := range preS {
		denoms[d] = true
	}
	for d := range postS {
		denoms[d] = true
	}
	if si.Ev.Block > 0 {
		if si.Out.Class != harness.OK {
			return aux, vs
		}
		minterAddr := harness.ModAddr(mtypes.ModuleName).String()
		mainAddr := harness.ModAddr(dtypes.DistributorMainAccount).String()
		minted, burned := sdk.NewCoins(), sdk.NewCoins()
		distBurn := sdk.NewDecCoins()
		mintEvent := sdk.ZeroInt()
		for _, e := range si.Out.Events {
			switch e.Type {
			case banktypes.EventTypeCoinMint:
				who, _ := harness.Attr(e, banktypes.AttributeKeyMinter)
				amt, _ := harness.Attr(e, sdk.AttributeKeyAmount)
				c, _ := sdk.ParseCoinsNormalized(amt)
				minted = minted.Add(c...)
				if who != minterAddr {
					bad("foreign-minter", "coins %s were minted by %s, only the minter module may mint", amt, who)
				}
			case banktypes.EventTypeCoinBurn:
				who, _ := harness.Attr(e, banktypes.AttributeKeyBurner)
				amt, _ := harness.Attr(e, sdk.AttributeKeyAmount)
				c, _ := sdk.ParseCoinsNormalized(amt)
				burned = burned.Add(c...)
				if who != mainAddr {
					bad("foreign-burner", "coins %s were burned by %s, only the distributor may burn", amt, who)
				}
			default:
				if msg, err := sdk.ParseTypedEvent(e); err == nil {
					switch ev := msg.(type) {
					case *dtypes.DistributionBurn:
						distBurn = distBurn.Add(ev.Amount...)
					case *mtypes.Mint:
						if a, ok := sdk.NewIntFromString(ev.Amount); ok {
							mintEvent = a
						}
					}
				}
			}
		}
		for d := range denoms {
			if !delta(d).Equal(minted.AmountOf(d).Sub(burned.AmountOf(d))) {
				bad("supply-delta", "supply of %s changed by %s, minted %s burned %s", d, delta(d), minted.AmountOf(d), burned.AmountOf(d))
			}
		}
		// the minter mints exactly what it reports, in its own denomination only
		mintDenom := w.App.CfeminterKeeper.GetParams(si.Pre).MintDenom
		for _, c := range minted {
			if c.Denom != mintDenom {
				bad("mint-denom", "minted %s, the configured mint denomination is %s", c, mintDenom)
			}
		}
		if !minted.AmountOf(mintDenom).Equal(mintEvent) {
			bad("mint-vs-event", "bank minted %s, the minter reports %s", minted.AmountOf(mintDenom), mintEvent)
		}
		// ... which is what the schedule says (closed form, as long as governance did not replace it)
		n := &c01Aux{sched: aux.sched, minterUpdated: aux.minterUpdated, minted: new(big.Int).Add(aux.minted, minted.AmountOf(mintDenom).BigInt()), dm: aux.dm}
		if !aux.minterUpdated {
			x, eb := aux.sched.Cumulative(si.Post.BlockTime())
			lo, hi := ref.FloorRange(x, eb)
			if n.minted.Cmp(lo) < 0 || n.minted.Cmp(hi) > 0 {
				bad("mint-vs-schedule", "cumulative minted %s at +%s, schedule %s", n.minted, si.Post.BlockTime().Sub(harness.T0), rangeStr(lo, hi))
			}
		}
		// the distributor burns exactly what it booked as burn share
		burnBefore, burnAfter := sdk.NewDecCoins(), sdk.NewDecCoins()
		if s, ok := w.App.CfedistributorKeeper.GetBurnState(si.Pre); ok {
			burnBefore = s.Remains
		}
		if s, ok := w.App.CfedistributorKeeper.GetBurnState(si.Post); ok {
			burnAfter = s.Remains
		}
		booked := burnBefore.Add(distBurn...)
		for d := range denoms {
			want := booked.AmountOf(d).Sub(burnAfter.AmountOf(d))
			if !want.Equal(sdk.NewDecFromInt(burned.AmountOf(d))) {
				bad("burn-vs-books", "burned %s%s, burn books say %s (before %s + share %s - after %s)", burned.AmountOf(d), d, want, burnBefore.AmountOf(d), distBurn.AmountOf(d), burnAfter.AmountOf(d))
			}
		}
		// ... and what the configuration says: burned coins and every destination's receipts per the
		// documented flow (independent of the distributor's own books)
		dm := aux.dm.Clone()
		params := w.App.CfedistributorKeeper.GetParams(si.Pre)
		dm.Subs = subsFromParams(params)
		dm.PayFails, dm.SweepFails = map[string]bool{}, map[string]bool{}
		type bankAcc struct {
			key  string
			addr sdk.AccAddress
		}
		var dests, srcs []bankAcc
		note := func(a ref.DAccount, isSrc bool) {
			if a.Type != dtypes.ModuleAccount && a.Type != dtypes.BaseAccount {
				return
			}
			ba := bankAcc{a.Key(), bankAddr(dacc{a.Type, a.ID})}
			if isSrc {
				srcs = append(srcs, ba)
				if a.Type == dtypes.BaseAccount && !coinsEq(w.App.BankKeeper.SpendableCoins(si.Pre, ba.addr), w.App.BankKeeper.GetAllBalances(si.Pre, ba.addr)) {
					dm.SweepFails[ba.key] = true
				}
			} else {
				dests = append(dests, ba)
				if a.Type == dtypes.BaseAccount && w.App.BankKeeper.BlockedAddr(ba.addr) {
					dm.PayFails[ba.key] = true
				}
			}
		}
		for _, sd := range dm.Subs {
			for _, a := range sd.Sources {
				note(a, true)
			}
			note(sd.Primary, false)
			for _, sh := range sd.Shares {
				note(sh.Dest, false)
			}
		}
		// destinations left over from an earlier configuration are still paid
		for k := range dm.Pending {
			for _, pfx := range []string{dtypes.ModuleAccount + "-", dtypes.BaseAccount + "-"} {
				if len(k) > len(pfx) && k[:len(pfx)] == pfx {
					t := pfx[:len(pfx)-1]
					note(ref.DAccount{Type: t, ID: k[len(pfx):]}, false)
				}
			}
		}
		for _, sa := range srcs { // other actors may have funded or emptied a source since the last block
			dm.Bal[sa.key] = amtOfCoins(w.App.BankKeeper.GetAllBalances(si.Pre, sa.addr))
		}
		dm.Inflow(ref.DAccount{Type: dtypes.Main}, amtOfCoins(minted))
		destBefore := map[string]ref.Amt{}
		for _, d := range dests {
			dm.Bal[d.key] = amtOfCoins(w.App.BankKeeper.GetAllBalances(si.Pre, d.addr))
			destBefore[d.key] = dm.Bal[d.key].Clone()
		}
		burnedBefore := dm.Burned.Clone()
		dm.Block()
		isSource := map[string]bool{}
		for _, sa := range srcs {
			isSource[sa.key] = true
		}
		for d := range denoms {
			wantBurn := new(big.Int)
			if dm.Burned[d] != nil {
				wantBurn.Set(dm.Burned[d])
			}
			if burnedBefore[d] != nil {
				wantBurn.Sub(wantBurn, burnedBefore[d])
			}
			if burned.AmountOf(d).BigInt().Cmp(wantBurn) != 0 {
				bad("burn-vs-configuration", "burned %s%s in this block, the fee-distribution configuration burns %s", burned.AmountOf(d), d, wantBurn)
			}
		}
		seen := map[string]bool{}
		for _, dd := range dests {
			if seen[dd.key] || isSource[dd.key] || dd.addr.Equals(harness.ModAddr(dtypes.ValidatorsRewardsCollector)) {
				continue // validators_rewards_collector is x/distribution's fee collector in this app and is swept by it in the same block
			}
			seen[dd.key] = true
			got := w.App.BankKeeper.GetAllBalances(si.Post, dd.addr)
			for d := range denoms {
				want := new(big.Int)
				if dm.Bal[dd.key] != nil && dm.Bal[dd.key][d] != nil {
					want.Set(dm.Bal[dd.key][d])
				}
				if got.AmountOf(d).BigInt().Cmp(want) != 0 {
					bad("dist-balance", "destination %s holds %s%s after the block, the configuration gives %s", dd.key, got.AmountOf(d), d, want)
				}
			}
		}
		mainGot := w.App.BankKeeper.GetAllBalances(si.Post, harness.ModAddr(dtypes.DistributorMainAccount))
		for d := range denoms {
			want := new(big.Int)
			if dm.Bal[ref.AccMain] != nil && dm.Bal[ref.AccMain][d] != nil {
				want.Set(dm.Bal[ref.AccMain][d])
			}
			if mainGot.AmountOf(d).BigInt().Cmp(want) != 0 {
				bad("dist-main-balance", "the distributor main account holds %s%s after the block, the configuration gives %s", mainGot.AmountOf(d), d, want)
			}
		}
		n.dm = dm
		return n, vs
	}
	// message transitions never change the supply and only move coins between the parties
	n := aux
	if _, ok := si.Msg.(*mtypes.MsgUpdateMintersParams); ok && si.Out.Class == harness.OK {
		n = &c01Aux{sched: aux.sched, minterUpdated: true, minted: aux.minted, dm: aux.dm}
	}
	for d := range denoms {
		if !delta(d).IsZero() {
			bad("message-changed-supply", "supply of %s changed by %s", d, delta(d))
		}
	}
	preB, postB := balancesMap(w, si.Pre), balancesMap(w, si.Post)
	allowed := map[string]bool{harness.ModAddr(vtypes.ModuleName).String(): true, harness.ModAddr(authtypes.FeeCollectorName).String(): true}
	if si.Sign != "" {
		allowed[harness.AddrS(si.Sign)] = true
	}
	switch m := si.Msg.(type) {
	case *vtypes.MsgSendToVestingAccount:
		allowed[m.ToAddress] = true
	case *vtypes.MsgCreateVestingAccount:
		allowed[m.ToAddress] = true
	case *vtypes.MsgSplitVesting:
		allowed[m.ToAddress] = true
	case *vtypes.MsgMoveAvailableVesting:
		allowed[m.ToAddress] = true
	case *vtypes.MsgMoveAvailableVestingByDenoms:
		allowed[m.ToAddress] = true
	case *banktypes.MsgSend: // not a custom-module message; part of the alphabet to fund a source account
		allowed[m.ToAddress] = true
	}
	addrs := map[string]bool{}
	for a := range preB {
		addrs[a] = true
	}
	for a := range postB {
		addrs[a] = true
	}
	for a := range addrs {
		if !coinsEq(preB[a], postB[a]) && !allowed[a] {
			bad("third-party-balance", "balance of %s changed from %s to %s", a, preB[a], postB[a])
		}
	}
	return n, vs
}

// c01Variant is one (emission, fee-distribution) configuration of the full application.
type c01Variant struct {
	name   string
	minter mintCfg
	distr  dtypes.Params
	govs   bool // include the governance updates of the base alphabet
}

func c01Variants() []c01Variant {
	u1, u2 := aU("U1"), aU("U2")
	return []c01Variant{
		{"linear+exp / fees->internal->main", c13MinterCfg(), c13DistParams(), true},
		{"exp only / chain over two internal accounts", mintCfg{Periods: []mp{{Kind: ref.ExpStep, Amount: "1000", Step: 10 * time.Second, Mult: "0.5"}}}, distChains()[0].Params(), false},
		{"none then linear / share to MAIN", mintCfg{Periods: []mp{{Kind: ref.NoMint, End: 5 * time.Second}, {Kind: ref.Linear, Amount: "777", End: 45 * time.Second}, {Kind: ref.NoMint}}},
			dcfg{{Sources: []dacc{aMfee}, Primary: aMAIN, Shares: []dshare{{u2, "0.3"}}, Burn: "0.01"}, {Sources: []dacc{aMAIN}, Primary: aMgeb, Shares: []dshare{{u2, "0.333333333333333333"}}, Burn: "0.5"}}.Params(), false},
		{"linear / several bank sources", mintCfg{Periods: []mp{{Kind: ref.Linear, Amount: "300", End: 30 * time.Second}, {Kind: ref.NoMint}}},
			dcfg{{Sources: []dacc{aMfee, u1, aMAIN}, Primary: aMgeb, Shares: []dshare{{u2, "0.05"}, {aBlocked(), "0.333333333333333333"}}, Burn: "0.2"}}.Params(), false},
		// destinations that are other modules' own accounts (anything in maccPerms passes validation)
		{"linear / shares to the minter's and the vesting module's accounts", mintCfg{Periods: []mp{{Kind: ref.Linear, Amount: "600", End: 30 * time.Second}, {Kind: ref.NoMint}}},
			dcfg{{Sources: []dacc{aMAIN}, Primary: aMgeb, Shares: []dshare{{dacc{dtypes.ModuleAccount, mtypes.ModuleName}, "0.1"}, {dacc{dtypes.ModuleAccount, vtypes.ModuleName}, "0.05"}}, Burn: "0.01"}}.Params(), false},
	}
}

func c01Scenario(v c01Variant) *Scenario {
	g := c01Genesis()
	g.Minter = v.minter.Genesis(harness.T0)
	g.Distr = &dtypes.GenesisState{Params: v.distr}
	g.Balances["U1"] = coins(20)
	var evs []Ev
	for _, e := range c01Events() {
		if !v.govs && e.Gov {
			continue
		}
		evs = append(evs, e)
	}
	evs = append(evs, Ev{Name: "banksend(A->U1,11)", Build: func(View) (sdk.Msg, string) {
		return banktypes.NewMsgSend(harness.Addr("A"), harness.Addr("U1"), coins(11)), "A"
	}})
	sched := v.minter.Schedule()
	return &Scenario{Name: "c01[" + v.name + "]", Genesis: harness.BuildGenesis(g), T0: harness.T0, Events: evs,
		NewAux: func(w *harness.World, root sdk.Context) interface{} {
			dm := ref.NewDistModel(nil)
			dm.Bal[ref.AccMain] = amtOfCoins(w.App.BankKeeper.GetAllBalances(root, harness.ModAddr(dtypes.DistributorMainAccount)))
			// the first block (at genesis time) has already run: take over what it left pending
			for _, st := range w.App.CfedistributorKeeper.GetAllStates(root) {
				key := ref.BurnKey
				if !st.Burn {
					key = st.Account.Type + "-" + st.Account.Id
				}
				a := ref.Amt{}
				for _, r := range st.Remains {
					a[r.Denom] = r.Amount.BigInt()
				}
				dm.Pending[key] = a
			}
			return &c01Aux{sched: &sched, minted: new(big.Int), dm: dm}
		},
		StepOracle: c01Step, StateOracle: c01State}
}

func runC01(rc *RunCtx) {
	depth, budget, maxTraces := 4, 90*time.Second, 800
	if rc.Thorough() {
		depth, budget, maxTraces = 6, 12*time.Minute, 10000
	}
	total := map[string]interface{}{}
	states, transitions, validated := 0, 0, 0
	exhaustive := true
	var samples []interface{}
	for i, v := range c01Variants() {
		d := depth
		if i == 0 && !rc.Thorough() {
			d = depth + 1 // the base variant carries the governance updates
		}
		sub := &RunCtx{ID: rc.ID, Tier: rc.Tier, Seed: rc.Seed, Workers: rc.Workers, Start: rc.Start, Deadline: rc.Deadline}
		runScenarioCheck(sub, c01Scenario(v), d, budget, maxTraces, "")
		rc.ViolateAll(sub.viols)
		rc.MachineryError = rc.MachineryError || sub.MachineryError
		states += sub.Cov["states"].(int)
		transitions += sub.Cov["transitions"].(int)
		validated += sub.Cov["traces_validated_against_impl"].(int)
		exhaustive = exhaustive && sub.Cov["exhaustive"].(bool)
		if ss, ok := sub.Cov["samples"].([]interface{}); ok && len(ss) > 0 {
			samples = append(samples, map[string]interface{}{"configuration": v.name, "history": ss[0]})
		}
		delete(sub.Cov, "per_event_outcomes")
		delete(sub.Cov, "alphabet")
		total[v.name] = sub.Cov
		rc.Assume = sub.Assume
	}
	total["states"], total["transitions"], total["traces_validated_against_impl"], total["exhaustive"], total["samples"] = states, transitions, validated, exhaustive, samples
	total["configurations"] = len(c01Variants())
	rc.Cov = total
	rc.Level = "model_checking"
}

func runC01single(rc *RunCtx) {

	scn := c01Scenario(c01Variants()[0])
	depth, budget, maxTraces := 5, 120*time.Second, 2000
	if rc.Thorough() {
		depth, budget, maxTraces = 6, 25*time.Minute, 30000
	}
	runScenarioCheck(rc, scn, depth, budget, maxTraces, "")
}
