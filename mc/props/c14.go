package props

import (
	"fmt"
	"sync"
	"sync/atomic"

	"c4emc/explore"
	"c4emc/harness"

	cfedistributor "github.com/chain4energy/c4e-chain/x/cfedistributor"
	dkeeper "github.com/chain4energy/c4e-chain/x/cfedistributor/keeper"
	dtypes "github.com/chain4energy/c4e-chain/x/cfedistributor/types"
	sdk "github.com/cosmos/cosmos-sdk/types"
	sdkerrors "github.com/cosmos/cosmos-sdk/types/errors"
	bankkeeper "github.com/cosmos/cosmos-sdk/x/bank/keeper"
)

func init() { Register(&Check{ID: "C14", Level: "fault_enumeration", Run: runC14}) }

// faultBank decorates the real bank keeper: the k-th mutating call fails (no side effect) when k is in fail.
// Two kinds of failure are injected: a clean one (no side effect) and a half-way one, in which the
// operation is carried out for the first denomination only before the error is returned - which is
// what the SDK's bank module itself does when a later denomination cannot be debited.
type faultBank struct {
	bankkeeper.Keeper
	fail    map[int]bool
	partial map[int]bool
	n       int
	calls   []string
	hit     int
}

// step returns (error to return, whether the first denomination is to be moved before failing)
func (f *faultBank) step(kind string) (error, bool) {
	i := f.n
	f.n++
	f.calls = append(f.calls, kind)
	if f.fail[i] {
		f.hit++
		return sdkerrors.Wrapf(sdkerrors.ErrInsufficientFunds, "injected fault at bank call %d (%s)", i, kind), f.partial[i]
	}
	return nil, false
}

func (f *faultBank) SendCoinsFromAccountToModule(ctx sdk.Context, a sdk.AccAddress, m string, amt sdk.Coins) error {
	if err, half := f.step("sweep-base"); err != nil {
		if half && len(amt) > 1 {
			_ = f.Keeper.SendCoinsFromAccountToModule(ctx, a, m, amt[:1])
		}
		return err
	}
	return f.Keeper.SendCoinsFromAccountToModule(ctx, a, m, amt)
}

func (f *faultBank) SendCoinsFromModuleToAccount(ctx sdk.Context, m string, a sdk.AccAddress, amt sdk.Coins) error {
	if err, half := f.step("pay-base"); err != nil {
		if half && len(amt) > 1 {
			_ = f.Keeper.SendCoinsFromModuleToAccount(ctx, m, a, amt[:1])
		}
		return err
	}
	return f.Keeper.SendCoinsFromModuleToAccount(ctx, m, a, amt)
}

func (f *faultBank) SendCoinsFromModuleToModule(ctx sdk.Context, s, r string, amt sdk.Coins) error {
	kind := "pay-module"
	if r == dtypes.DistributorMainAccount {
		kind = "sweep-module"
	}
	if err, half := f.step(kind); err != nil {
		if half && len(amt) > 1 {
			_ = f.Keeper.SendCoinsFromModuleToModule(ctx, s, r, amt[:1])
		}
		return err
	}
	return f.Keeper.SendCoinsFromModuleToModule(ctx, s, r, amt)
}

func (f *faultBank) BurnCoins(ctx sdk.Context, m string, amt sdk.Coins) error {
	if err, half := f.step("burn"); err != nil {
		if half && len(amt) > 1 {
			_ = f.Keeper.BurnCoins(ctx, m, amt[:1])
		}
		return err
	}
	return f.Keeper.BurnCoins(ctx, m, amt)
}

func faultKeeper(w *harness.World, fb *faultBank) dkeeper.Keeper {
	return *dkeeper.NewKeeper(w.App.AppCodec(), w.App.GetKey(dtypes.StoreKey), w.App.GetMemKey(dtypes.MemStoreKey),
		w.App.GetSubspace(dtypes.ModuleName), fb, w.App.AccountKeeper, harness.GovAuthority())
}

func c14Configs() []dcfg {
	u1, u2 := aU("U1"), aU("U2")
	out := []dcfg{
		{{Sources: []dacc{aMAIN}, Primary: aVRC, Shares: []dshare{{u2, "0.5"}}, Burn: "0.01"}},
		{{Sources: []dacc{aMfee, aMAIN}, Primary: u2, Shares: []dshare{{aVRC, "0.333333333333333333"}}, Burn: "0.5"}},
		{{Sources: []dacc{aMAIN, u1}, Primary: aMgeb, Shares: []dshare{{u2, "0.05"}, {aVRC, "0.333333333333333333"}}, Burn: "0.01"}},
		{{Sources: []dacc{u1}, Primary: aI1, Shares: []dshare{{u2, "0.5"}}, Burn: "0.01"}, {Sources: []dacc{aI1, aMAIN}, Primary: aVRC, Shares: []dshare{{aMgeb, "0.05"}}, Burn: "0.01"}},
		{{Sources: []dacc{aMfee}, Primary: aMAIN, Shares: []dshare{{u2, "0.5"}}, Burn: "0.01"}, {Sources: []dacc{aMAIN}, Primary: aVRC, Burn: "0.5"}},
		{{Sources: []dacc{aMfee, u1}, Primary: aVRC, Shares: []dshare{{aMAIN, "0.333333333333333333"}}, Burn: "0"}, {Sources: []dacc{aMAIN}, Primary: u2, Burn: "0.01"}},
	}
	// a bank-backed account that is destination of one sub-distributor and source of a later one
	// (pass-through): it carries recorded remains of its own when its sweep fails
	out = append(out,
		dcfg{{Sources: []dacc{aMAIN}, Primary: u1, Shares: []dshare{{u2, "0.333333333333333333"}}, Burn: "0.01"}, {Sources: []dacc{u1}, Primary: aVRC, Shares: []dshare{{aMgeb, "0.05"}}, Burn: "0"}},
		dcfg{{Sources: []dacc{aMfee, aMAIN}, Primary: aMgeb, Shares: []dshare{{u2, "0.5"}}, Burn: "0"}, {Sources: []dacc{aMgeb}, Primary: u2, Shares: []dshare{{aVRC, "0.333333333333333333"}}, Burn: "0.01"}},
	)
	out = append(out, distChains()...)
	return out
}

type c14Run struct {
	bals   map[string]sdk.Coins
	burned sdk.Coins
	calls  int
	hit    int
	kinds  []string
}

func runC14(rc *RunCtx) {
	cfgs := c14Configs()
	bound := 2
	maxAll := 8
	if rc.Thorough() {
		bound = 5
		maxAll = 14
	}
	faulty := []inflowPat{patSeven, patMulti}
	if rc.Thorough() {
		faulty = append(faulty, patSeven) // a third block in which calls can fail
	}
	// two fault-free suffixes: one that brings new coins and one in which nothing arrives at all
	// (what is owed must be paid even when no source has anything new)
	suffixes := [][]inflowPat{{patOne, patNone}, {patNone, patNone}}
	genesis := harness.BuildGenesis(harness.Genesis{Balances: map[string]sdk.Coins{"U1": coins(0), "U2": coins(0)}})
	worlds := make([]*harness.World, rc.Workers)
	var runs, nontrivial, maxCalls int64
	var mu sync.Mutex
	var samples []interface{}
	kindsSeen := map[string]int{}
	perBound := map[int]int{}

	type job struct {
		ci      int
		si      int // which fault-free suffix
		fail    []int
		partial []int // subset of fail that fails half-way
	}
	// first pass: fault-free twins (also gives the number of calls per configuration)
	twins := make([][]*c14Run, len(cfgs))
	exec := func(w *harness.World, cfg dcfg, si int, fail []int, partial []int, check bool) *c14Run {
		suffix := suffixes[si]
		fb := &faultBank{Keeper: w.App.BankKeeper, fail: map[int]bool{}, partial: map[int]bool{}}
		for _, i := range fail {
			fb.fail[i] = true
		}
		for _, i := range partial {
			fb.partial[i] = true
		}
		k := faultKeeper(w, fb)
		ctx := harness.Branch(w.Root())
		if err := k.SetParams(ctx, cfg.Params()); err != nil {
			return nil
		}
		supply0 := w.App.BankKeeper.GetSupply(ctx, harness.Denom).Amount
		supplyB0 := w.App.BankKeeper.GetSupply(ctx, denomB).Amount
		minted := sdk.NewCoins()
		srcs := cfg.sources()
		var hist []string
		report := func(sig, what string) {
			rc.Violate(&explore.Violation{Property: "C14", Sig: "C14:" + sig, What: fmt.Sprintf("%s faults=%v half-way=%v suffix=%s: %s", cfg, fail, partial, suffixName(suffix), what), Path: append([]string{}, hist...),
				Detail: map[string]interface{}{"config": cfg, "config_str": cfg.String(), "failing_calls": fail, "half_way": partial, "calls": fb.calls}})
		}
		blk := func(p inflowPat, withFaults bool) {
			applyInflow(w, ctx, nil, srcs, p)
			for j := range srcs {
				minted = minted.Add(p.Per[j%len(p.Per)]...)
			}
			hist = append(hist, p.Name)
			hdr := ctx.BlockHeader()
			hdr.Height++
			hdr.Time = hdr.Time.Add(5e9)
			ctx = ctx.WithBlockHeader(hdr)
			if !withFaults {
				// fault-free suffix: no call fails any more
				fb.fail = map[int]bool{}
			}
			func() {
				defer func() {
					if r := recover(); r != nil {
						if check {
							report("panic", fmt.Sprintf("BeginBlocker panicked: %v", r))
						}
					}
				}()
				cfedistributor.BeginBlocker(ctx, k)
			}()
			if check {
				c03Oracle(w, ctx, k, report)
			}
		}
		for _, p := range faulty {
			blk(p, true)
		}
		callsInFaulty := fb.n
		for _, p := range suffix {
			blk(p, false)
		}
		r := &c14Run{bals: map[string]sdk.Coins{}, calls: callsInFaulty, hit: fb.hit, kinds: fb.calls}
		for _, a := range cfg.bankAccounts() {
			r.bals[a.short()] = w.App.BankKeeper.GetAllBalances(ctx, bankAddr(a))
		}
		r.burned = sdk.NewCoins(
			sdk.NewCoin(harness.Denom, supply0.Add(minted.AmountOf(harness.Denom)).Sub(w.App.BankKeeper.GetSupply(ctx, harness.Denom).Amount)),
			sdk.NewCoin(denomB, supplyB0.Add(minted.AmountOf(denomB)).Sub(w.App.BankKeeper.GetSupply(ctx, denomB).Amount)))
		return r
	}
	ParallelFor(rc.Workers, len(cfgs), func(wk, ci int) {
		if worlds[wk] == nil {
			worlds[wk] = harness.NewWorld(genesis, harness.T0)
		}
		twins[ci] = make([]*c14Run, len(suffixes))
		for si := range suffixes {
			twins[ci][si] = exec(worlds[wk], cfgs[ci], si, nil, nil, true)
		}
	})
	var jobs []job
	// every fault set is run with all failures clean, and with every non-empty subset of them failing
	// half-way (up to 3 failures; for larger sets: all half-way and each one alone half-way)
	addJobs := func(js *[]job, ci int, f []int) {
		for si := 1; si < len(suffixes); si++ {
			*js = append(*js, job{ci, si, f, nil}) // the other suffixes: clean failures only
		}
		*js = append(*js, job{ci, 0, f, nil})
		if len(f) <= 3 {
			for mask := 1; mask < 1<<uint(len(f)); mask++ {
				var p []int
				for i := range f {
					if mask&(1<<uint(i)) != 0 {
						p = append(p, f[i])
					}
				}
				*js = append(*js, job{ci, 0, f, p})
			}
			return
		}
		*js = append(*js, job{ci, 0, f, f})
		for _, x := range f {
			*js = append(*js, job{ci, 0, f, []int{x}})
		}
	}
	for ci := range cfgs {
		if twins[ci] == nil || twins[ci][0] == nil {
			continue
		}
		n := twins[ci][0].calls + 1 // one more index than the twin made: a failed sweep can add later calls
		if int64(n) > maxCalls {
			maxCalls = int64(n)
		}
		for _, k := range twins[ci][0].kinds {
			kindsSeen[k]++
		}
		if n <= maxAll {
			for mask := 1; mask < 1<<uint(n); mask++ {
				var f []int
				for i := 0; i < n; i++ {
					if mask&(1<<uint(i)) != 0 {
						f = append(f, i)
					}
				}
				addJobs(&jobs, ci, f)
				perBound[len(f)]++
			}
		} else {
			var gen func(start int, cur []int)
			gen = func(start int, cur []int) {
				if len(cur) > 0 {
					addJobs(&jobs, ci, append([]int{}, cur...))
					perBound[len(cur)]++
				}
				if len(cur) == bound {
					return
				}
				for i := start; i < n; i++ {
					gen(i+1, append(cur, i))
				}
			}
			gen(0, nil)
		}
	}
	addJobs = nil
	ParallelFor(rc.Workers, len(jobs), func(wk, ji int) {
		j := jobs[ji]
		w := worlds[wk]
		if w == nil {
			w = harness.NewWorld(genesis, harness.T0)
			worlds[wk] = w
		}
		cfg := cfgs[j.ci]
		r := exec(w, cfg, j.si, j.fail, j.partial, true)
		atomic.AddInt64(&runs, 1)
		if r == nil {
			return
		}
		if r.hit > 0 {
			atomic.AddInt64(&nontrivial, 1)
		}
		tw := twins[j.ci][j.si]
		for acc, b := range r.bals {
			for _, d := range []string{harness.Denom, denomB} {
				diff := b.AmountOf(d).Sub(tw.bals[acc].AmountOf(d)).Abs()
				if diff.GT(sdk.OneInt()) {
					rc.Violate(&explore.Violation{Property: "C14", Sig: "C14:not-made-up:" + accKind(acc), What: fmt.Sprintf("%s faults=%v half-way=%v (%v) suffix="+suffixName(suffixes[j.si])+": after the fault-free suffix %s holds %s%s, the fault-free twin %s%s", cfg, j.fail, j.partial, kindsOf(r.kinds, j.fail), acc, b.AmountOf(d), d, tw.bals[acc].AmountOf(d), d),
						Detail: map[string]interface{}{"config": cfg, "failing_calls": j.fail, "calls": r.kinds}})
				}
			}
		}
		for _, d := range []string{harness.Denom, denomB} {
			if r.burned.AmountOf(d).Sub(tw.burned.AmountOf(d)).Abs().GT(sdk.OneInt()) {
				rc.Violate(&explore.Violation{Property: "C14", Sig: "C14:burn-not-made-up", What: fmt.Sprintf("%s faults=%v: burned %s%s, twin %s%s", cfg, j.fail, r.burned.AmountOf(d), d, tw.burned.AmountOf(d), d),
					Detail: map[string]interface{}{"config": cfg, "failing_calls": j.fail, "calls": r.kinds}})
			}
		}
		if ji%(len(jobs)/5+1) == 0 {
			mu.Lock()
			samples = append(samples, map[string]interface{}{"config": cfg.String(), "failing_calls": j.fail, "call_kinds": kindsOf(r.kinds, j.fail), "history": suffixName(faulty) + " ; [fault-free] " + suffixName(suffixes[j.si])})
			mu.Unlock()
		}
	})
	rc.Level = "fault_enumeration"
	rc.Cov = map[string]interface{}{
		"evaluations": int(runs) + len(cfgs), "distinct_nontrivial": int(nontrivial),
		"rule":    fmt.Sprintf("for each configuration the fault-free twin fixes the number n of mutating bank calls in the faulty blocks (two quick, three thorough); every non-empty subset of failing call indices is run when n+1 <= %d, otherwise every subset of size <= %d (iterative deviation bounding). Non-trivial = runs in which at least one injected fault was actually hit; each (configuration, fault set) is distinct by construction.", maxAll, bound),
		"samples": samples, "configurations": len(cfgs), "max_calls_in_faulty_blocks": int(maxCalls), "fault_sets_by_size": perBound,
		"bank_call_kinds_seen_in_twins": kindsSeen, "deviation_bound_completed": bound, "exhaustive": true,
		"fault_free_suffixes": []string{suffixName(suffixes[0]), suffixName(suffixes[1]) + " (clean failures only)"},
	}
	rc.Assume = []string{"a failing bank call either has no side effect or (half-way failure) has moved the first denomination only, like the SDK's own bank send", "module level with a cfedistributor keeper built by the exported NewKeeper over the app's own store keys"}
}

func suffixName(ps []inflowPat) string {
	s := ""
	for i, p := range ps {
		if i > 0 {
			s += ";"
		}
		s += p.Name
	}
	return s
}

func accKind(a string) string {
	if len(a) > 1 {
		return a[:1]
	}
	return a
}

func kindsOf(kinds []string, idx []int) []string {
	var out []string
	for _, i := range idx {
		if i < len(kinds) {
			out = append(out, fmt.Sprintf("%d:%s", i, kinds[i]))
		} else {
			out = append(out, fmt.Sprintf("%d:-", i))
		}
	}
	return out
}
