// Package props holds one check per property: alphabet, bounds, oracles.
package props

import (
	"crypto/sha256"
	"encoding/hex"
	"encoding/json"
	"fmt"
	"os"
	"path/filepath"
	"runtime"
	"sort"
	"strings"
	"sync"
	"sync/atomic"
	"time"

	"c4emc/explore"
)

// VerifDir is where evidence, replays and known findings live (the directory of run.sh).
var VerifDir = func() string {
	if d := os.Getenv("VERIF_DIR"); d != "" {
		return d
	}
	return "/verif"
}()

// Evidence mirrors EVIDENCE.schema.json.
type Evidence struct {
	PropertyID  string                 `json:"property_id"`
	Tier        string                 `json:"tier"`
	Seed        int64                  `json:"seed"`
	Level       string                 `json:"level"`
	Coverage    map[string]interface{} `json:"coverage"`
	Assumptions []string               `json:"assumptions,omitempty"`
	WallS       float64                `json:"wall_s"`
	Violations  int                    `json:"violations"`
}

type KnownFinding struct {
	Property  string `json:"property"`
	Signature string `json:"signature"`
	What      string `json:"what"`
}

type KnownFile struct {
	Known []KnownFinding `json:"known"`
	Fixed []string       `json:"fixed"`
}

func LoadKnown() KnownFile {
	var k KnownFile
	bz, err := os.ReadFile(filepath.Join(VerifDir, "known_findings.json"))
	if err != nil {
		return k
	}
	if err := json.Unmarshal(bz, &k); err != nil {
		panic("known_findings.json: " + err.Error())
	}
	return k
}

// RunCtx is handed to every check.
type RunCtx struct {
	ID      string
	Tier    string
	Seed    int64
	Workers int
	Start   time.Time

	mu             sync.Mutex
	viols          []*explore.Violation
	Cov            map[string]interface{}
	Level          string
	Assume         []string
	Notes          []string
	MachineryError bool
	// Deadline only stops further enumeration (the run then reports exhaustive:false); it never decides.
	Deadline time.Time
	capped   int32
	// firstUnlisted: when the first violation that is not a listed known finding was recorded. A run
	// that has already found one stops enumerating 45 s later (it will exit 1 anyway).
	firstUnlisted time.Time
	known         *KnownFile
}

// Active is the run context consulted by ParallelFor for the time budget.
var Active *RunCtx

func (rc *RunCtx) Expired() bool {
	if rc == nil {
		return false
	}
	rc.mu.Lock()
	fu := rc.firstUnlisted
	rc.mu.Unlock()
	if !fu.IsZero() && time.Since(fu) > 45*time.Second {
		atomic.StoreInt32(&rc.capped, 1)
		return true
	}
	if rc.Deadline.IsZero() || time.Now().Before(rc.Deadline) {
		return false
	}
	atomic.StoreInt32(&rc.capped, 1)
	return true
}

func (rc *RunCtx) Capped() bool { return atomic.LoadInt32(&rc.capped) != 0 }

func (rc *RunCtx) Thorough() bool { return rc.Tier == "thorough" }

func (rc *RunCtx) Logf(f string, a ...interface{}) {
	fmt.Fprintf(os.Stderr, "[%s %6.1fs] %s\n", rc.ID, time.Since(rc.Start).Seconds(), fmt.Sprintf(f, a...))
}

// Violate records a violation (deduplicated by signature, shortest path kept).
func (rc *RunCtx) Violate(v *explore.Violation) {
	rc.mu.Lock()
	defer rc.mu.Unlock()
	if v.Property == "" {
		v.Property = rc.ID
	}
	if rc.firstUnlisted.IsZero() {
		if rc.known == nil {
			k := LoadKnown()
			rc.known = &k
		}
		listed := false
		for _, k := range rc.known.Known {
			if k.Property == v.Property && k.Signature == v.Sig {
				listed = true
			}
		}
		if !listed {
			rc.firstUnlisted = time.Now()
		}
	}
	for i, o := range rc.viols {
		if o.Property == v.Property && o.Sig == v.Sig {
			if len(v.Path) < len(o.Path) {
				rc.viols[i] = v
			}
			return
		}
	}
	rc.viols = append(rc.viols, v)
}

func (rc *RunCtx) ViolateAll(vs []*explore.Violation) {
	for _, v := range vs {
		rc.Violate(v)
	}
}

// HasSignature reports whether a violation with this signature was recorded.
func (rc *RunCtx) HasSignature(sig string) bool {
	rc.mu.Lock()
	defer rc.mu.Unlock()
	for _, v := range rc.viols {
		if v.Sig == sig {
			return true
		}
	}
	return false
}

func (rc *RunCtx) NumViolations() int {
	rc.mu.Lock()
	defer rc.mu.Unlock()
	return len(rc.viols)
}

// Check is one registered property check.
type Check struct {
	ID     string
	Level  string // model_checking | exploration | fault_enumeration
	Run    func(rc *RunCtx)
	Replay func(rc *RunCtx, rf *ReplayFile) (bool, string)
}

var Registry = map[string]*Check{}

func Register(c *Check) { Registry[c.ID] = c }

type ReplayFile struct {
	Property  string          `json:"property"`
	Scenario  string          `json:"scenario,omitempty"`
	Tier      string          `json:"tier"`
	What      string          `json:"what"`
	Signature string          `json:"signature"`
	Path      []string        `json:"path,omitempty"`
	Detail    json.RawMessage `json:"detail,omitempty"`
}

// Finish writes evidence, replay files and the verdict lines; returns the process exit code.
func (rc *RunCtx) Finish() int {
	known := LoadKnown()
	sort.SliceStable(rc.viols, func(i, j int) bool { return len(rc.viols[i].Path) < len(rc.viols[j].Path) })
	unlisted := 0
	for _, v := range rc.viols {
		matched := false
		for _, k := range known.Known {
			if k.Property == v.Property && k.Signature == v.Sig {
				fmt.Printf("KNOWN-FINDING: property=%s %s [%s]\n", v.Property, k.What, v.Sig)
				matched = true
				break
			}
		}
		if matched {
			continue
		}
		unlisted++
		det, _ := json.Marshal(v.Detail)
		rf := ReplayFile{Property: v.Property, Tier: rc.Tier, What: v.What, Signature: v.Sig, Path: v.Path, Detail: det}
		bz, _ := json.MarshalIndent(rf, "", " ")
		h := sha256.Sum256([]byte(v.Sig))
		p := filepath.Join(VerifDir, "replays", fmt.Sprintf("%s-%s.json", v.Property, hex.EncodeToString(h[:6])))
		_ = os.MkdirAll(filepath.Dir(p), 0o755)
		_ = os.WriteFile(p, bz, 0o644)
		fmt.Printf("VIOLATION property=%s replay=%s\n", v.Property, p)
		fmt.Printf("  what: %s\n  signature: %s\n", v.What, v.Sig)
		if len(v.Path) > 0 {
			fmt.Printf("  path: %s\n", strings.Join(v.Path, " ; "))
		}
	}
	ev := Evidence{PropertyID: rc.ID, Tier: rc.Tier, Seed: rc.Seed, Level: rc.Level, Coverage: rc.Cov,
		Assumptions: rc.Assume, WallS: time.Since(rc.Start).Seconds(), Violations: unlisted}
	if ev.Coverage == nil {
		ev.Coverage = map[string]interface{}{}
	}
	ev.Coverage["known_findings_matched"] = len(rc.viols) - unlisted
	if rc.Capped() {
		ev.Coverage["exhaustive"] = false
		ev.Coverage["capped_by_time_budget"] = true
	}
	if len(rc.Notes) > 0 {
		ev.Coverage["notes"] = rc.Notes
	}
	bz, _ := json.MarshalIndent(ev, "", " ")
	_ = os.MkdirAll(filepath.Join(VerifDir, "evidence"), 0o755)
	if err := os.WriteFile(filepath.Join(VerifDir, "evidence", rc.ID+".json"), bz, 0o644); err != nil {
		fmt.Fprintln(os.Stderr, "evidence write:", err)
		return 2
	}
	if unlisted > 0 {
		return 1
	}
	if rc.MachineryError {
		fmt.Printf("MACHINERY-ERROR property=%s (mode A / mode B divergence or replay nondeterminism; not a property verdict)\n", rc.ID)
		return 2
	}
	fmt.Printf("OK property=%s tier=%s wall=%.1fs\n", rc.ID, rc.Tier, ev.WallS)
	return 0
}

func DefaultWorkers() int {
	n := runtime.NumCPU()
	if n > 16 {
		n = 16
	}
	if n < 1 {
		n = 1
	}
	return n
}

// ParallelFor runs f(i) for i in [0,n) on rc.Workers goroutines.
func ParallelFor(workers, n int, f func(worker, i int)) {
	if workers > n {
		workers = n
	}
	if workers < 1 {
		workers = 1
	}
	var wg sync.WaitGroup
	var mu sync.Mutex
	next := 0
	for w := 0; w < workers; w++ {
		wg.Add(1)
		go func(w int) {
			defer wg.Done()
			for {
				mu.Lock()
				i := next
				next++
				mu.Unlock()
				if i >= n {
					return
				}
				if Active.Expired() {
					continue // budget exhausted: remaining items are skipped and the run reports exhaustive:false
				}
				f(w, i)
			}
		}(w)
	}
	wg.Wait()
}

func names(events []string, p []uint16) []string {
	out := make([]string, len(p))
	for i, e := range p {
		out[i] = events[e]
	}
	return out
}

// CovFromResult fills model-checking coverage keys from an exploration result.
func CovFromResult(events []string, r *explore.Result) map[string]interface{} {
	cov := map[string]interface{}{
		"states": r.States, "transitions": r.Transitions, "rejected_transitions": r.Rejected,
		"depth_complete": r.DepthComplete, "exhaustive": r.Exhaustive, "level_sizes": r.LevelSizes,
		"alphabet": events, "per_event_outcomes": r.PerEvent, "distinct_outcome_classes": len(r.Outcomes),
		"explore_wall_s": r.Wall.Seconds(),
	}
	var samples []interface{}
	step := len(r.Tree)/5 + 1
	for i := len(r.Tree) - 1; i >= 0 && len(samples) < 5; i -= step {
		samples = append(samples, names(events, r.Tree[i].Path))
	}
	if len(samples) == 0 {
		samples = append(samples, []string{})
	}
	cov["samples"] = samples
	var never []string
	for _, e := range events {
		m := r.PerEvent[e]
		if m == nil || m["ok"] == 0 {
			never = append(never, e)
		}
	}
	cov["events_never_succeeding"] = never
	return cov
}
