package props

import (
	"fmt"
	"math/big"
	"strings"
	"time"

	"c4emc/explore"
	"c4emc/harness"
	"c4emc/ref"

	vestkeeper "github.com/chain4energy/c4e-chain/x/cfevesting/keeper"
	vtypes "github.com/chain4energy/c4e-chain/x/cfevesting/types"
	sdk "github.com/cosmos/cosmos-sdk/types"
	authtypes "github.com/cosmos/cosmos-sdk/x/auth/types"
	vestingtypes "github.com/cosmos/cosmos-sdk/x/auth/vesting/types"
)

var freshLabels = []string{"R1", "R2", "R3", "R4", "R5", "R6", "R7", "R8", "R9"}

// freshAddr: the first address of a fixed list that has no account yet (so histories that
// differ only in "which unused address" collapse).
func freshAddr(v View) (string, string) {
	for _, l := range freshLabels {
		if v.App.AccountKeeper.GetAccount(v.Ctx, harness.Addr(l)) == nil {
			return l, harness.AddrS(l)
		}
	}
	return "", ""
}

func poolRemainder(v View, owner, pool string) (sdk.Int, bool) {
	avp, found := v.App.CfevestingKeeper.GetAccountVestingPools(v.Ctx, harness.AddrS(owner))
	if !found {
		return sdk.ZeroInt(), false
	}
	for _, p := range avp.VestingPools {
		if p.Name == pool {
			return p.GetCurrentlyLocked(), true
		}
	}
	return sdk.ZeroInt(), false
}

func coins(n int64) sdk.Coins { return sdk.NewCoins(sdk.NewInt64Coin(harness.Denom, n)) }

type vestCfg struct {
	name            string
	poolSpecs       []poolSpec
	blocks          []time.Duration
	sendAmts        []string // "0","1","3","rem","rem+1"
	withExtra       bool     // direct creation, split, move
	withInval       bool
	owners          []string
	pools           []string
	poolDefs        []poolDef // explicit create-pool events (instead of owners x pools x poolSpecs)
	sendRestartBoth bool
	withUpper       bool // the first owner also sends its messages with its address spelled in upper-case bech32
	withMulti       bool // transactions carrying two messages (second failing / both succeeding)
}

type poolDef struct {
	owner, name string
	poolSpec
}

type poolSpec struct {
	amount int64
	dur    time.Duration
	vtype  string
}

func vestGenesis() harness.Genesis {
	return harness.Genesis{
		Balances: map[string]sdk.Coins{"A": coins(40), "B": coins(40), "C": coins(10)},
		Vesting: &vtypes.GenesisState{
			Params: vtypes.Params{Denom: harness.Denom},
			VestingTypes: []vtypes.GenesisVestingType{
				{Name: "t0", LockupPeriod: 3, LockupPeriodUnit: "second", VestingPeriod: 6, VestingPeriodUnit: "second", Free: sdk.ZeroDec()},
				{Name: "t5", LockupPeriod: 5, LockupPeriodUnit: "second", VestingPeriod: 10, VestingPeriodUnit: "second", Free: sdk.NewDecWithPrec(5, 1)},
				// not used by the alphabets; they exist so that export / import sees every unit and zero periods
				{Name: "cliff-36h", LockupPeriod: 36, LockupPeriodUnit: "hour", VestingPeriod: 0, VestingPeriodUnit: "day", Free: sdk.ZeroDec()},
				{Name: "nolock-90m", LockupPeriod: 0, LockupPeriodUnit: "day", VestingPeriod: 90, VestingPeriodUnit: "minute", Free: sdk.NewDecWithPrec(1, 1)},
				{Name: "2d-36h", LockupPeriod: 2, LockupPeriodUnit: "day", VestingPeriod: 36, VestingPeriodUnit: "hour", Free: sdk.OneDec()},
				{Name: "61s-61m", LockupPeriod: 61, LockupPeriodUnit: "second", VestingPeriod: 61, VestingPeriodUnit: "minute", Free: sdk.MustNewDecFromStr("0.333333333333333333")},
				{Name: "zero-zero", LockupPeriod: 0, LockupPeriodUnit: "day", VestingPeriod: 0, VestingPeriodUnit: "day", Free: sdk.ZeroDec()},
			},
			VestingAccountTraces: []vtypes.VestingAccountTrace{},
		},
	}
}

func vestEvents(c vestCfg) []Ev {
	var evs []Ev
	for _, d := range c.blocks {
		evs = append(evs, Ev{Name: fmt.Sprintf("block+%s", d), Block: d})
	}
	mkPool := func(owner, name string, amt func(v View) sdk.Int, amtName string, dur time.Duration, vt string) Ev {
		return Ev{Name: fmt.Sprintf("pool(%s,%s,%s,%s,%s)", owner, name, amtName, dur, vt), Build: func(v View) (sdk.Msg, string) {
			return vtypes.NewMsgCreateVestingPool(harness.AddrS(owner), name, amt(v), dur, vt), owner
		}}
	}
	fixed := func(n int64) func(View) sdk.Int { return func(View) sdk.Int { return sdk.NewInt(n) } }
	if len(c.poolDefs) > 0 {
		for _, pd := range c.poolDefs {
			evs = append(evs, mkPool(pd.owner, pd.name, fixed(pd.amount), fmt.Sprint(pd.amount), pd.dur, pd.vtype))
		}
	} else {
		for _, o := range c.owners {
			for _, p := range c.pools {
				for _, ps := range c.poolSpecs {
					evs = append(evs, mkPool(o, p, fixed(ps.amount), fmt.Sprint(ps.amount), ps.dur, ps.vtype))
				}
			}
		}
	}
	if c.withInval {
		o, p := c.owners[0], c.pools[0]
		evs = append(evs, mkPool(o, p, fixed(0), "0", 5*time.Second, "t5"))
		evs = append(evs, mkPool(o, p, func(v View) sdk.Int {
			return v.App.BankKeeper.GetBalance(v.Ctx, harness.Addr(o), harness.Denom).Amount.AddRaw(1)
		}, "bal+1", 5*time.Second, "t5"))
		evs = append(evs, mkPool(o, p, fixed(10), "10", 5*time.Second, "missing"))
	}
	wOwners := append([]string{}, c.owners...)
	if c.withInval {
		wOwners = append(wOwners, "C")
	}
	for _, o := range wOwners {
		o := o
		evs = append(evs, Ev{Name: "withdraw(" + o + ")", Build: func(v View) (sdk.Msg, string) {
			return vtypes.NewMsgWithdrawAllAvailable(harness.AddrS(o)), o
		}})
	}
	mkSend := func(owner, pool, amt, to string, restart bool) Ev {
		return Ev{Name: fmt.Sprintf("send(%s.%s,%s,->%s,restart=%v)", owner, pool, amt, to, restart), Build: func(v View) (sdk.Msg, string) {
			var a sdk.Int
			rem, _ := poolRemainder(v, owner, pool)
			switch amt {
			case "rem":
				a = rem
			case "rem+1":
				a = rem.AddRaw(1)
			default:
				n, _ := sdk.NewIntFromString(amt)
				a = n
			}
			var toAddr string
			switch to {
			case "fresh":
				_, toAddr = freshAddr(v)
				if toAddr == "" {
					return nil, ""
				}
			default:
				toAddr = harness.AddrS(to)
			}
			return vtypes.NewMsgSendToVestingAccount(harness.AddrS(owner), toAddr, pool, a, restart), owner
		}}
	}
	for _, o := range c.owners {
		for _, p := range c.pools {
			for _, a := range c.sendAmts {
				evs = append(evs, mkSend(o, p, a, "fresh", true))
				if c.sendRestartBoth {
					evs = append(evs, mkSend(o, p, a, "fresh", false))
				}
			}
		}
	}
	o0, p0 := c.owners[0], c.pools[0]
	if !c.sendRestartBoth {
		evs = append(evs, mkSend(o0, p0, "3", "fresh", false))
		evs = append(evs, mkSend(o0, p0, "rem", "fresh", false))
	}
	if c.withInval {
		other := "C"
		evs = append(evs, mkSend(o0, p0, "3", other, true))
		evs = append(evs, mkSend(o0, p0, "3", other, false))
		evs = append(evs, mkSend(o0, p0, "3", o0, true))
		evs = append(evs, mkSend(o0, "nopool", "3", "fresh", true))
	}
	if c.withUpper {
		// bech32 is case-insensitive as long as the case is not mixed: the upper-case spelling passes
		// ValidateBasic, names the same signer and must reach the same pools
		up := func() string { return strings.ToUpper(harness.AddrS(o0)) }
		ps := poolSpec{10, 5 * time.Second, "t5"}
		if len(c.poolSpecs) > 0 {
			ps = c.poolSpecs[0]
		}
		for _, p := range c.pools {
			p := p
			evs = append(evs, Ev{Name: fmt.Sprintf("pool(%s^upper,%s,%d,%s,%s)", o0, p, ps.amount, ps.dur, ps.vtype), Build: func(v View) (sdk.Msg, string) {
				return vtypes.NewMsgCreateVestingPool(up(), p, sdk.NewInt(ps.amount), ps.dur, ps.vtype), o0
			}})
		}
		evs = append(evs, Ev{Name: "withdraw(" + o0 + "^upper)", Build: func(v View) (sdk.Msg, string) {
			return vtypes.NewMsgWithdrawAllAvailable(up()), o0
		}})
		evs = append(evs, Ev{Name: fmt.Sprintf("send(%s^upper.%s,3,->fresh,restart=true)", o0, p0), Build: func(v View) (sdk.Msg, string) {
			_, to := freshAddr(v)
			if to == "" {
				return nil, ""
			}
			return vtypes.NewMsgSendToVestingAccount(up(), to, p0, sdk.NewInt(3), true), o0
		}})
	}
	if c.withMulti {
		ps := poolSpec{10, 5 * time.Second, "t5"}
		if len(c.poolSpecs) > 0 {
			ps = c.poolSpecs[0]
		}
		// one transaction, two messages: the first succeeds, the second cannot (unknown pool), so
		// nothing of the first may remain
		evs = append(evs, Ev{Name: fmt.Sprintf("tx[pool(%s,%s,%d,%s,%s); send(%s.nopool,3,->fresh)]", o0, p0, ps.amount, ps.dur, ps.vtype, o0), Build: func(v View) (sdk.Msg, string) {
			return vtypes.NewMsgCreateVestingPool(harness.AddrS(o0), p0, sdk.NewInt(ps.amount), ps.dur, ps.vtype), o0
		}, Then: func(v View) []sdk.Msg {
			_, to := freshAddr(v)
			if to == "" {
				to = harness.AddrS("R9")
			}
			return []sdk.Msg{vtypes.NewMsgSendToVestingAccount(harness.AddrS(o0), to, "nopool", sdk.NewInt(3), true)}
		}})
		// both succeed (when the pool exists): withdraw, then send from what is left
		evs = append(evs, Ev{Name: fmt.Sprintf("tx[withdraw(%s); send(%s.%s,1,->fresh)]", o0, o0, p0), Build: func(v View) (sdk.Msg, string) {
			return vtypes.NewMsgWithdrawAllAvailable(harness.AddrS(o0)), o0
		}, Then: func(v View) []sdk.Msg {
			_, to := freshAddr(v)
			if to == "" {
				to = harness.AddrS("R9")
			}
			return []sdk.Msg{vtypes.NewMsgSendToVestingAccount(harness.AddrS(o0), to, p0, sdk.NewInt(1), true)}
		}})
	}
	if c.withExtra {
		evs = append(evs, Ev{Name: "createVA(A->fresh,4)", Build: func(v View) (sdk.Msg, string) {
			_, to := freshAddr(v)
			if to == "" {
				return nil, ""
			}
			now := v.Ctx.BlockTime().Unix()
			return vtypes.NewMsgCreateVestingAccount(harness.AddrS("A"), to, coins(4), now, now+10), "A"
		}})
		evs = append(evs, Ev{Name: "createVA(A->fresh,4,start=0)", Build: func(v View) (sdk.Msg, string) {
			_, to := freshAddr(v)
			if to == "" {
				return nil, ""
			}
			return vtypes.NewMsgCreateVestingAccount(harness.AddrS("A"), to, coins(4), 0, v.Ctx.BlockTime().Unix()+100*365*86400), "A" // end far beyond any wall clock
		}})
		evs = append(evs, Ev{Name: "createVA(A->C,4)", Build: func(v View) (sdk.Msg, string) {
			now := v.Ctx.BlockTime().Unix()
			return vtypes.NewMsgCreateVestingAccount(harness.AddrS("A"), harness.AddrS("C"), coins(4), now, now+10), "A"
		}})
		evs = append(evs, Ev{Name: "split(R1->fresh,1)", Build: func(v View) (sdk.Msg, string) {
			if v.App.AccountKeeper.GetAccount(v.Ctx, harness.Addr("R1")) == nil {
				return nil, ""
			}
			_, to := freshAddr(v)
			if to == "" {
				return nil, ""
			}
			return vtypes.NewMsgSplitVesting(harness.AddrS("R1"), to, coins(1)), "R1"
		}})
		evs = append(evs, Ev{Name: "move(R1->fresh)", Build: func(v View) (sdk.Msg, string) {
			if v.App.AccountKeeper.GetAccount(v.Ctx, harness.Addr("R1")) == nil {
				return nil, ""
			}
			_, to := freshAddr(v)
			if to == "" {
				return nil, ""
			}
			return vtypes.NewMsgMoveAvailableVesting(harness.AddrS("R1"), to), "R1"
		}})
	}
	return evs
}

// ---- model binding ---------------------------------------------------------------------------

func newPoolModel(w *harness.World, ctx sdk.Context) *ref.PoolModel {
	m := &ref.PoolModel{Pools: map[string][]*ref.Pool{}, Bal: map[string]*big.Int{}, Exists: map[string]bool{}, Blocked: map[string]bool{}, Types: map[string]ref.VType{},
		Module: harness.ModAddr(vtypes.ModuleName).String()}
	for a := range w.App.BlockedModuleAccountAddrs() {
		m.Blocked[a] = true
	}
	w.App.AccountKeeper.IterateAccounts(ctx, func(a authtypes.AccountI) bool {
		m.Exists[a.GetAddress().String()] = true
		m.Bal[a.GetAddress().String()] = w.App.BankKeeper.GetBalance(ctx, a.GetAddress(), harness.Denom).Amount.BigInt()
		return false
	})
	for _, vt := range w.App.CfevestingKeeper.GetAllVestingTypes(ctx).VestingTypes {
		m.Types[vt.Name] = ref.VType{FreeNum: vt.Free.BigInt(), FreeDen: new(big.Int).Exp(big.NewInt(10), big.NewInt(18), nil), Lockup: vt.LockupPeriod, Vesting: vt.VestingPeriod}
	}
	for _, avp := range w.App.CfevestingKeeper.GetAllAccountVestingPools(ctx) {
		for _, p := range avp.VestingPools {
			m.Pools[avp.Owner] = append(m.Pools[avp.Owner], &ref.Pool{Name: p.Name, Type: p.VestingType, Locked0: p.InitiallyLocked.BigInt(), Sent: p.Sent.BigInt(), Withdrawn: p.Withdrawn.BigInt(), LockEnd: p.LockEnd, Genesis: p.GenesisPool})
		}
	}
	return m
}

func implPoolsCanon(w *harness.World, ctx sdk.Context) string {
	m := &ref.PoolModel{Pools: map[string][]*ref.Pool{}}
	for _, avp := range w.App.CfevestingKeeper.GetAllAccountVestingPools(ctx) {
		for _, p := range avp.VestingPools {
			m.Pools[avp.Owner] = append(m.Pools[avp.Owner], &ref.Pool{Name: p.Name, Type: p.VestingType, Locked0: p.InitiallyLocked.BigInt(), Sent: p.Sent.BigInt(), Withdrawn: p.Withdrawn.BigInt(), LockEnd: p.LockEnd, Genesis: p.GenesisPool})
		}
	}
	return m.CanonPools()
}

// vestStep drives the pool model along one transition and compares it with the implementation.
func vestStep(prop string) func(si *StepInfo) (interface{}, []*explore.Violation) {
	return func(si *StepInfo) (interface{}, []*explore.Violation) {
		m := si.Aux.(*ref.PoolModel)
		if si.Ev.Block > 0 {
			return m, nil
		}
		if si.Out.Class == harness.Invalid {
			return m, nil
		}
		var vs []*explore.Violation
		bad := func(sig, f string, a ...interface{}) {
			vs = append(vs, &explore.Violation{Property: prop, What: fmt.Sprintf(f, a...), Sig: prop + ":" + sig})
		}
		if si.Ev.Then != nil {
			// a transaction with several messages is not predicted message by message: the model is
			// re-read and the state invariant plus the rollback check of the conformance replay decide
			return newPoolModel(si.W, si.Post), nil
		}
		if softRequest(si.Msg) {
			// The property does not say whether a degenerate request (amount 0, empty name, no
			// duration) is to be accepted: its outcome is not predicted. If it was accepted the model
			// is re-read from the implementation; the state invariant applies as always.
			if si.Out.Class == harness.OK {
				return newPoolModel(si.W, si.Post), nil
			}
			return m, nil
		}
		if o := msgOwner(si.Msg); o != "" && !canonicalAddr(o) {
			// The property speaks about pools and coins, not about which spelling of an address finds
			// which pools: a message whose owner is spelled unusually is not predicted; the model is
			// re-read from the implementation and the state invariant (module balance = sum of pool
			// remainders) decides.
			return newPoolModel(si.W, si.Post), nil
		}
		now := si.Pre.BlockTime()
		n := m.Clone()
		pred := ref.PredAny
		ok := si.Out.Class == harness.OK
		switch msg := si.Msg.(type) {
		case *vtypes.MsgCreateVestingPool:
			pred = n.CreatePool(now, msg.Owner, msg.Name, msg.Amount.BigInt(), msg.Duration, msg.VestingType)
		case *vtypes.MsgWithdrawAllAvailable:
			pred, _, _ = n.Withdraw(now, msg.Owner)
		case *vtypes.MsgSendToVestingAccount:
			pred = n.Send(now, msg.Owner, msg.ToAddress, msg.VestingPoolName, msg.Amount.BigInt())
		case *vtypes.MsgCreateVestingAccount:
			if ok {
				n.Transfer(msg.FromAddress, msg.ToAddress, msg.Amount.AmountOf(harness.Denom).BigInt(), true)
			}
		case *vtypes.MsgSplitVesting:
			if ok {
				n.Transfer(msg.FromAddress, msg.ToAddress, msg.Amount.AmountOf(harness.Denom).BigInt(), true)
			}
		case *vtypes.MsgMoveAvailableVesting:
			if ok {
				to, _ := sdk.AccAddressFromBech32(msg.ToAddress)
				got := si.W.App.BankKeeper.GetBalance(si.Post, to, harness.Denom).Amount
				n.Transfer(msg.FromAddress, msg.ToAddress, got.BigInt(), true)
			}
		}
		if pred != ref.PredAny && ok != (pred == ref.PredOK) {
			bad("model-outcome:"+sdk.MsgTypeURL(si.Msg), "%s: implementation %s, reference model says %v (log: %s)", si.Ev.Name, si.Out.Key(), pred == ref.PredOK, firstLine(si.Out.Log))
		}
		if !ok {
			n = m // a failed message has no model effect
		}
		if si.Out.Class == harness.Panic {
			return n, vs
		}
		// compare pools and balances
		if got, want := implPoolsCanon(si.W, si.Post), n.CanonPools(); got != want {
			bad("model-pools:"+sdk.MsgTypeURL(si.Msg), "%s: pools differ from reference model: impl %s model %s", si.Ev.Name, got, want)
		}
		for a, b := range n.Bal {
			addr, _ := sdk.AccAddressFromBech32(a)
			got := si.W.App.BankKeeper.GetBalance(si.Post, addr, harness.Denom).Amount.BigInt()
			// signer pays no fee in these scenarios; balances must match exactly
			if got.Cmp(b) != 0 && tracked(a) {
				bad("model-balance:"+sdk.MsgTypeURL(si.Msg), "%s: balance of %s is %s, reference model %s", si.Ev.Name, a, got, b)
			}
		}
		return n, vs
	}
}

func canonicalAddr(s string) bool {
	a, err := sdk.AccAddressFromBech32(s)
	return err == nil && a.String() == s
}

// softRequest: requests whose acceptance the properties leave open.
func softRequest(m sdk.Msg) bool {
	switch msg := m.(type) {
	case *vtypes.MsgCreateVestingPool:
		return msg.Amount.IsNil() || msg.Amount.IsZero() || msg.Name == "" || msg.Duration <= 0
	case *vtypes.MsgSendToVestingAccount:
		return msg.Amount.IsNil() || msg.Amount.IsZero() || msg.VestingPoolName == ""
	}
	return false
}

func msgOwner(m sdk.Msg) string {
	switch msg := m.(type) {
	case *vtypes.MsgCreateVestingPool:
		return msg.Owner
	case *vtypes.MsgWithdrawAllAvailable:
		return msg.Owner
	case *vtypes.MsgSendToVestingAccount:
		return msg.Owner
	}
	return ""
}

var trackedAddrs map[string]bool

func tracked(a string) bool {
	if trackedAddrs == nil {
		trackedAddrs = map[string]bool{harness.ModAddr(vtypes.ModuleName).String(): true}
		for _, l := range append([]string{"A", "B", "C"}, freshLabels...) {
			trackedAddrs[harness.AddrS(l)] = true
		}
	}
	return trackedAddrs[a]
}

// vestInvariant is C05's statement, evaluated on the real stores.
func vestInvariant(prop string) func(w *harness.World, ctx sdk.Context, aux interface{}) []*explore.Violation {
	return func(w *harness.World, ctx sdk.Context, aux interface{}) []*explore.Violation {
		var vs []*explore.Violation
		sum := sdk.ZeroInt()
		for _, avp := range w.App.CfevestingKeeper.GetAllAccountVestingPools(ctx) {
			for _, p := range avp.VestingPools {
				sum = sum.Add(p.InitiallyLocked.Sub(p.Sent).Sub(p.Withdrawn))
				if p.Withdrawn.IsNegative() || p.Sent.IsNegative() || p.Withdrawn.Add(p.Sent).GT(p.InitiallyLocked) {
					vs = append(vs, &explore.Violation{Property: prop, Sig: prop + ":pool-inequality", What: fmt.Sprintf("pool %s/%s violates 0<=withdrawn, 0<=sent, withdrawn+sent<=locked: locked=%s sent=%s withdrawn=%s", avp.Owner, p.Name, p.InitiallyLocked, p.Sent, p.Withdrawn)})
				}
			}
		}
		bal := w.App.BankKeeper.GetBalance(ctx, harness.ModAddr(vtypes.ModuleName), harness.Denom).Amount
		if !bal.Equal(sum) {
			vs = append(vs, &explore.Violation{Property: prop, Sig: prop + ":module-balance", What: fmt.Sprintf("vesting module account holds %s but pools sum to %s", bal, sum)})
		}
		for name, inv := range map[string]sdk.Invariant{
			"module-account": vestkeeper.ModuleAccountInvariant(w.App.CfevestingKeeper),
			"consistent":     vestkeeper.VestingPoolConsistentDataInvariant(w.App.CfevestingKeeper),
			"nonnegative":    vestkeeper.NonNegativeVestingPoolAmountsInvariant(w.App.CfevestingKeeper),
		} {
			if msg, broken := inv(ctx); broken {
				vs = append(vs, &explore.Violation{Property: prop, Sig: prop + ":registered-invariant:" + name, What: "registered invariant broken: " + msg})
			}
		}
		return vs
	}
}

var _ = vestingtypes.ContinuousVestingAccount{}
