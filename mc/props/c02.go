package props

import (
	"fmt"
	"math/big"
	"sync"
	"sync/atomic"
	"time"

	"c4emc/explore"
	"c4emc/harness"
	"c4emc/ref"

	sdk "github.com/cosmos/cosmos-sdk/types"
)

func init() { Register(&Check{ID: "C02", Level: "model_checking", Run: runC02}) }

var (
	mintAmountsLin = []string{"0", "1", "7", "1000", "1000003", "1000000000000000000000007"}
	mintAmountsExp = []string{"1", "7", "1000", "1000003", "1000000000000000000000007"}
	mintSteps      = []time.Duration{time.Second, 10 * time.Second}
	mintMults      = []string{"0", "0.5", "0.25", "1", "0.333333333333333333", "0.9", "0.07"}
)

func mintTypesFull() []mp {
	out := []mp{{Kind: ref.NoMint}}
	for _, a := range mintAmountsLin {
		out = append(out, mp{Kind: ref.Linear, Amount: a})
	}
	for _, a := range mintAmountsExp {
		for _, s := range mintSteps {
			for _, m := range mintMults {
				out = append(out, mp{Kind: ref.ExpStep, Amount: a, Step: s, Mult: m})
			}
		}
	}
	return out
}

func mintTypesReduced() []mp {
	return []mp{
		{Kind: ref.NoMint},
		{Kind: ref.Linear, Amount: "7"},
		{Kind: ref.Linear, Amount: "1000003"},
		{Kind: ref.Linear, Amount: "0"},
		{Kind: ref.ExpStep, Amount: "1000", Step: 10 * time.Second, Mult: "0.5"},
		{Kind: ref.ExpStep, Amount: "7", Step: time.Second, Mult: "0.333333333333333333"},
		{Kind: ref.ExpStep, Amount: "1000000000000000000000007", Step: 10 * time.Second, Mult: "0.9"},
		{Kind: ref.ExpStep, Amount: "1", Step: time.Second, Mult: "1"},
		{Kind: ref.ExpStep, Amount: "1000", Step: 10 * time.Second, Mult: "0"},
		{Kind: ref.ExpStep, Amount: "1000003", Step: time.Second, Mult: "0.25"},
		// a step longer than the periods it is used in: the period ends inside its first step
		{Kind: ref.ExpStep, Amount: "1000003", Step: 60 * time.Second, Mult: "0.5"},
	}
}

func nonLinear(ts []mp) []mp {
	var out []mp
	for _, t := range ts {
		if t.Kind != ref.Linear {
			out = append(out, t)
		}
	}
	return out
}

func withEnd(p mp, end time.Duration) mp { p.End = end; return p }

// mintConfigs enumerates the configuration alphabet.
func mintConfigs(thorough bool) []mintCfg {
	full, red := mintTypesFull(), mintTypesReduced()
	fullLast, redLast := nonLinear(full), nonLinear(red)
	var out []mintCfg
	for _, t := range fullLast {
		out = append(out, mintCfg{Periods: []mp{t}})
	}
	for _, e1 := range []time.Duration{15 * time.Second, 20 * time.Second} {
		for _, f := range full {
			for _, r := range redLast {
				out = append(out, mintCfg{Periods: []mp{withEnd(f, e1), r}})
			}
		}
		for _, r := range red {
			for _, f := range fullLast {
				out = append(out, mintCfg{Periods: []mp{withEnd(r, e1), f}})
			}
		}
		starts := []time.Duration{0}
		if thorough {
			starts = []time.Duration{0, 2 * time.Second, -3 * time.Second}
		}
		for _, st := range starts {
			for _, r1 := range red {
				for _, r2 := range red {
					for _, r3 := range redLast {
						out = append(out, mintCfg{Start: st, Periods: []mp{withEnd(r1, st+e1), withEnd(r2, st+e1+15*time.Second), r3}})
					}
				}
			}
		}
	}
	// four and five periods with ends 10 s apart: one block can cross three or four period ends
	// (the grid contains the far jump and every period end, so every subset of ends is skipped by
	// some cadence)
	many := []mp{{Kind: ref.Linear, Amount: "1000003"}, {Kind: ref.ExpStep, Amount: "1000", Step: 10 * time.Second, Mult: "0.5"}, {Kind: ref.NoMint}, {Kind: ref.Linear, Amount: "7"}}
	for _, a := range many {
		for _, b := range many {
			for _, c := range many {
				for _, l := range []mp{{Kind: ref.NoMint}, {Kind: ref.ExpStep, Amount: "1000003", Step: time.Second, Mult: "0.25"}} {
					out = append(out, mintCfg{Periods: []mp{withEnd(a, 10*time.Second), withEnd(b, 20*time.Second), withEnd(c, 30*time.Second), l}})
					if a.Kind != b.Kind {
						out = append(out, mintCfg{Periods: []mp{withEnd(a, 10*time.Second), withEnd(b, 20*time.Second), withEnd(c, 30*time.Second), withEnd(many[0], 40*time.Second), l}})
					}
				}
			}
		}
	}
	// a configuration start with a sub-millisecond part (linear emission is defined on millisecond-
	// truncated instants): the grid contains every period end exactly
	for _, st := range []time.Duration{500 * time.Microsecond, 999999 * time.Nanosecond} {
		for _, a := range []string{"1000003", "7", "1000000"} {
			for _, l := range redLast[:3] {
				out = append(out, mintCfg{Start: st, Periods: []mp{withEnd(mp{Kind: ref.Linear, Amount: a}, 10*time.Second), withEnd(mp{Kind: ref.Linear, Amount: "500000"}, 20*time.Second), l}})
			}
		}
	}
	// period ids need not start at 1 (validation asks only for consecutive ids above 0): the
	// reduced two- and three-period families again with ids from 2 and from 5
	for _, first := range []int{2, 5} {
		for _, r := range red {
			for _, l := range redLast {
				out = append(out, mintCfg{FirstID: first, Periods: []mp{withEnd(r, 15*time.Second), l}})
				if first == 2 {
					out = append(out, mintCfg{FirstID: first, Periods: []mp{withEnd(r, 15*time.Second), withEnd(red[1], 30*time.Second), l}})
				}
			}
		}
		out = append(out, mintCfg{FirstID: first, Periods: []mp{redLast[1]}})
	}
	return out
}

type c02Stats struct {
	nodes, mints, boundaryCross, carryNonzero, rejectedCfg int64
}

// exploreCadences runs every strictly increasing subsequence of grid as a block history.
func exploreCadences(w *harness.World, cfg mintCfg, grid []time.Duration, st *c02Stats, report func(sig, what string, cadence []time.Duration)) {
	params := cfg.Params()
	if err := params.Validate(); err != nil {
		atomic.AddInt64(&st.rejectedCfg, 1)
		return
	}
	sched := cfg.Schedule()
	root := harness.Branch(w.Root())
	k := w.App.CfeminterKeeper
	if err := k.SetParams(root, params); err != nil {
		atomic.AddInt64(&st.rejectedCfg, 1)
		return
	}
	k.SetMinterState(root, cfg.freshState(harness.T0))
	cumAt := make([]*big.Int, len(grid))
	// expected per instant
	lo := make([]*big.Int, len(grid))
	hi := make([]*big.Int, len(grid))
	for j, d := range grid {
		x, eb := sched.Cumulative(harness.T0.Add(d))
		lo[j], hi[j] = ref.FloorRange(x, eb)
	}
	cad := make([]time.Duration, 0, len(grid))
	var rec func(ctx sdk.Context, i int, cum *big.Int)
	rec = func(ctx sdk.Context, i int, cum *big.Int) {
		for j := i + 1; j < len(grid); j++ {
			c := harness.Branch(ctx)
			hdr := c.BlockHeader()
			hdr.Time = harness.T0.Add(grid[j])
			hdr.Height++
			c = c.WithBlockHeader(hdr)
			cad = append(cad, grid[j])
			supBefore := w.App.BankKeeper.GetSupply(c, params.MintDenom).Amount
			amt, err := k.Mint(c)
			atomic.AddInt64(&st.mints, 1)
			atomic.AddInt64(&st.nodes, 1)
			if err != nil {
				report("mint-error", fmt.Sprintf("Mint returned error %v", err), cad)
				cad = cad[:len(cad)-1]
				continue
			}
			if amt.IsNegative() {
				report("negative-mint", fmt.Sprintf("block minted a negative amount %s", amt), cad)
			}
			supAfter := w.App.BankKeeper.GetSupply(c, params.MintDenom).Amount
			if !supAfter.Sub(supBefore).Equal(amt) {
				report("supply-delta", fmt.Sprintf("Mint returned %s but supply changed by %s", amt, supAfter.Sub(supBefore)), cad)
			}
			ncum := new(big.Int).Add(cum, amt.BigInt())
			if ncum.Cmp(lo[j]) < 0 || ncum.Cmp(hi[j]) > 0 {
				report("cumulative", fmt.Sprintf("cumulative minted at +%s is %s, schedule says %s", grid[j], ncum, rangeStr(lo[j], hi[j])), cad)
			}
			if cumAt[j] == nil {
				cumAt[j] = ncum
			} else if cumAt[j].Cmp(ncum) != 0 {
				report("path-dependence", fmt.Sprintf("cumulative minted at +%s depends on the block cadence: %s vs %s", grid[j], cumAt[j], ncum), cad)
			}
			// period bookkeeping
			ms := k.GetMinterState(c)
			curIdx, _ := sched.Current(harness.T0.Add(grid[j]))
			if harness.T0.Add(grid[j]).Before(sched.Start) {
				curIdx = 0
			}
			if int(ms.SequenceId) != curIdx+cfg.first() {
				report("sequence-id", fmt.Sprintf("at +%s the current period is %d, schedule says %d", grid[j], ms.SequenceId, curIdx+cfg.first()), cad)
			}
			if int(ms.SequenceId) > cfg.first() {
				atomic.AddInt64(&st.boundaryCross, 1)
			}
			if !ms.RemainderFromPreviousMinter.IsZero() {
				atomic.AddInt64(&st.carryNonzero, 1)
			}
			for pi := 0; pi < curIdx; pi++ {
				if cfg.Periods[pi].Kind == ref.Linear {
					h, found := k.GetMinterStateHistory(c, uint32(pi+cfg.first()))
					if !found || !h.AmountMinted.Equal(mustInt(cfg.Periods[pi].Amount)) {
						report("linear-total", fmt.Sprintf("finished linear period %d minted %v, configured %s", pi+1, h.AmountMinted, cfg.Periods[pi].Amount), cad)
					}
				}
			}
			rec(c, j, ncum)
			cad = cad[:len(cad)-1]
		}
	}
	rec(root, -1, new(big.Int))
}

func rangeStr(lo, hi *big.Int) string {
	if lo.Cmp(hi) == 0 {
		return lo.String()
	}
	return lo.String() + ".." + hi.String()
}

func runC02(rc *RunCtx) {
	cfgs := mintConfigs(rc.Thorough())
	gridN := 8
	if rc.Thorough() {
		gridN = 11
	}
	genesis := harness.BuildGenesis(harness.Genesis{})
	worlds := make([]*harness.World, rc.Workers)
	var st c02Stats
	var mu sync.Mutex
	var samples []interface{}
	distinctCfgCross := int64(0)
	ParallelFor(rc.Workers, len(cfgs), func(wk, i int) {
		if worlds[wk] == nil {
			worlds[wk] = harness.NewWorld(genesis, harness.T0)
		}
		cfg := cfgs[i]
		grid := cfg.grid(gridN)
		before := atomic.LoadInt64(&st.carryNonzero)
		exploreCadences(worlds[wk], cfg, grid, &st, func(sig, what string, cad []time.Duration) {
			rc.Violate(&explore.Violation{Property: "C02", Sig: "C02:" + sig, What: cfg.String() + ": " + what,
				Path: cadNames(cad), Detail: map[string]interface{}{"config": cfg, "cadence": cad}})
		})
		if atomic.LoadInt64(&st.carryNonzero) > before {
			atomic.AddInt64(&distinctCfgCross, 1)
		}
		if i%997 == 0 {
			mu.Lock()
			samples = append(samples, map[string]interface{}{"config": cfg.String(), "grid": durs(grid)})
			mu.Unlock()
		}
	})
	rc.Level = "model_checking"
	rc.Cov = map[string]interface{}{
		"states": int(st.nodes) + len(cfgs), "transitions": int(st.mints), "traces_validated_against_impl": 0,
		"configurations": len(cfgs), "configurations_rejected_by_validation": int(st.rejectedCfg),
		"cadences_per_configuration": 1 << uint(gridN), "grid_points": gridN,
		"mints_after_a_period_boundary": int(st.boundaryCross), "mints_with_nonzero_carry_from_previous_period": int(st.carryNonzero),
		"configurations_with_nonzero_carry_approx": int(distinctCfgCross),
		"exhaustive": true, "samples": samples,
		"explanation": "states = nodes of the cadence trees (every strictly increasing subsequence of the grid is one block history, prefixes shared on store branches); transitions = real Keeper.Mint calls. The keeper is the implementation, so there is no separate model trace to validate (traces_validated_against_impl = 0).",
	}
	rc.Assume = []string{"keeper-level: Keeper.Mint on branches of the real app's stores after real Params.Validate/SetParams", "reference = exact rational closed form; equality demanded except where the schedule is within the fixed-point error bound of an integer"}
}

func cadNames(c []time.Duration) []string {
	out := make([]string, len(c))
	for i, d := range c {
		out[i] = "block@+" + d.String()
	}
	return out
}

func durs(c []time.Duration) []string {
	out := make([]string, len(c))
	for i, d := range c {
		out[i] = d.String()
	}
	return out
}
