package props

import (
	"bytes"
	"encoding/hex"
	"encoding/json"
	"fmt"
	"runtime/debug"
	"sort"
	"strings"
	"sync"
	"sync/atomic"
	"time"

	"c4emc/explore"
	"c4emc/harness"

	c4eapp "github.com/chain4energy/c4e-chain/app"
	dtypes "github.com/chain4energy/c4e-chain/x/cfedistributor/types"
	mtypes "github.com/chain4energy/c4e-chain/x/cfeminter/types"
	sigtypes "github.com/chain4energy/c4e-chain/x/cfesignature/types"
	vtypes "github.com/chain4energy/c4e-chain/x/cfevesting/types"
	sdk "github.com/cosmos/cosmos-sdk/types"
	authtypes "github.com/cosmos/cosmos-sdk/x/auth/types"
	banktypes "github.com/cosmos/cosmos-sdk/x/bank/types"
	abci "github.com/tendermint/tendermint/abci/types"
)

func init() { Register(&Check{ID: "C12", Level: "model_checking", Run: runC12}) }

var c12Stores = []string{mtypes.StoreKey, dtypes.StoreKey, vtypes.StoreKey, sigtypes.StoreKey, banktypes.StoreKey, authtypes.StoreKey}
var c12Modules = []string{mtypes.ModuleName, dtypes.ModuleName, vtypes.ModuleName, sigtypes.ModuleName, banktypes.ModuleName, authtypes.ModuleName}

func canonJSON(raw []byte) string {
	var v interface{}
	if err := json.Unmarshal(raw, &v); err != nil {
		return "unparsable:" + string(raw)
	}
	bz, _ := json.Marshal(v)
	return string(bz)
}

// keyPrefixes summarises which kinds of keys differ between two store dumps.
func keyPrefixes(a, b map[string]string) string {
	set := map[string]bool{}
	note := func(hk string) {
		k, _ := hex.DecodeString(hk)
		p := ""
		printable := len(k) > 0
		for _, c := range k {
			if c < 0x20 || c > 0x7e {
				printable = false
				break
			}
		}
		if printable {
			s := string(k)
			if i := strings.Index(s, "-Value-"); i > 0 {
				p = s[:i+len("-Value-")]
			} else if i := strings.IndexAny(s, "-/"); i > 0 {
				p = s[:i+1]
			} else {
				p = s
				if len(p) > 12 {
					p = p[:12]
				}
			}
		} else if len(k) > 0 {
			p = fmt.Sprintf("0x%02x", k[0])
			// text after a one-byte prefix
			if len(k) > 1 {
				rest := string(k[1:])
				if i := strings.Index(rest, "-Value-"); i > 0 {
					p = rest[:i+len("-Value-")]
				}
			}
		}
		set[p] = true
	}
	for k, v := range a {
		if vb, ok := b[k]; !ok || vb != v {
			note(k)
		}
	}
	for k := range b {
		if _, ok := a[k]; !ok {
			note(k)
		}
	}
	var out []string
	for p := range set {
		out = append(out, p)
	}
	sort.Strings(out)
	return strings.Join(out, "|")
}

// queryDump renders the answers of the custom queries a user can ask (for behaviour comparison).
func queryDump(w *harness.World, ctx sdk.Context, owners []string) string {
	cdc := w.App.AppCodec()
	var sb strings.Builder
	add := func(name string, f func() (interface{ String() string }, error)) {
		defer func() {
			if r := recover(); r != nil {
				fmt.Fprintf(&sb, "%s: panic %v\n", name, r)
			}
		}()
		r, err := f()
		if err != nil {
			fmt.Fprintf(&sb, "%s: err\n", name)
			return
		}
		if pm, ok := r.(interface {
			String() string
		}); ok {
			fmt.Fprintf(&sb, "%s: %s\n", name, pm.String())
		}
	}
	_ = cdc
	c := sdk.WrapSDKContext(ctx)
	add("minter.params", func() (interface{ String() string }, error) {
		return w.App.CfeminterKeeper.Params(c, &mtypes.QueryParamsRequest{})
	})
	add("minter.state", func() (interface{ String() string }, error) {
		return w.App.CfeminterKeeper.State(c, &mtypes.QueryStateRequest{})
	})
	add("minter.inflation", func() (interface{ String() string }, error) {
		return w.App.CfeminterKeeper.Inflation(c, &mtypes.QueryInflationRequest{})
	})
	add("distr.params", func() (interface{ String() string }, error) {
		return w.App.CfedistributorKeeper.Params(c, &dtypes.QueryParamsRequest{})
	})
	add("distr.states", func() (interface{ String() string }, error) {
		return w.App.CfedistributorKeeper.States(c, &dtypes.QueryStatesRequest{})
	})
	add("vesting.params", func() (interface{ String() string }, error) {
		return w.App.CfevestingKeeper.Params(c, &vtypes.QueryParamsRequest{})
	})
	add("vesting.types", func() (interface{ String() string }, error) {
		return w.App.CfevestingKeeper.VestingType(c, &vtypes.QueryVestingTypeRequest{})
	})
	add("vesting.summary", func() (interface{ String() string }, error) {
		return w.App.CfevestingKeeper.VestingsSummary(c, &vtypes.QueryVestingsSummaryRequest{})
	})
	add("vesting.genesis-summary", func() (interface{ String() string }, error) {
		return w.App.CfevestingKeeper.GenesisVestingsSummary(c, &vtypes.QueryGenesisVestingsSummaryRequest{})
	})
	for _, o := range owners {
		o := o
		add("vesting.pools("+o+")", func() (interface{ String() string }, error) {
			return w.App.CfevestingKeeper.VestingPools(c, &vtypes.QueryVestingPoolsRequest{Owner: harness.AddrS(o)})
		})
	}
	add("signature.params", func() (interface{ String() string }, error) {
		return w.App.CfesignatureKeeper.Params(c, &sigtypes.QueryParamsRequest{})
	})
	for _, al := range sigAddrs {
		for _, ref := range c15Refs() {
			al, ref := al, ref
			add("signature.verify("+al+","+ref[:6]+")", func() (interface{ String() string }, error) {
				return w.App.CfesignatureKeeper.VerifySignature(c, &sigtypes.QueryVerifySignatureRequest{ReferenceId: ref, TargetAccAddress: harness.AddrS(al)})
			})
		}
	}
	return sb.String()
}

func customEvents(evs []abci.Event) string {
	var sb strings.Builder
	for _, e := range evs {
		if strings.HasPrefix(e.Type, "chain4energy.") {
			sb.WriteString(e.Type)
			for _, a := range e.Attributes {
				fmt.Fprintf(&sb, " %s=%s", a.Key, a.Value)
			}
			sb.WriteString("\n")
		}
	}
	return sb.String()
}

type c12Stats struct {
	points, continuations, restartsA int64
}

// c12ExportPoint runs the real export / import at the state reached by path and compares
// everything the property lists.
func c12ExportPoint(scn *Scenario, events []string, path []uint16, contDepth int, st *c12Stats, report func(sig, what string, p []string)) {
	pnames := names(events, path)
	n := harness.NewNode(scn.Genesis, scn.T0)
	for _, e := range path {
		if _, _, _, ok := RunEventB(scn, n, &scn.Events[e]); !ok {
			return
		}
	}
	atomic.AddInt64(&st.points, 1)
	var exp1AppState []byte
	var height int64
	var w2 *harness.World
	failed := false
	func() {
		defer func() {
			if r := recover(); r != nil {
				failed = true
				o := harness.Outcome{Stack: string(debug.Stack()), Log: fmt.Sprint(r)}
				report("export-or-import-panics:"+panicSig(o), fmt.Sprintf("export/import panicked: %v", r), pnames)
			}
		}()
		n.App.EndBlock(abci.RequestEndBlock{Height: n.Header.Height})
		n.App.Commit()
		exp1, err := n.App.ExportAppStateAndValidators(false, nil)
		if err != nil {
			failed = true
			report("export-error", "export failed: "+err.Error(), pnames)
			return
		}
		exp1AppState, height = exp1.AppState, exp1.Height
		var gs map[string]json.RawMessage
		if err := json.Unmarshal(exp1.AppState, &gs); err != nil {
			panic(err)
		}
		enc := harness.Enc()
		for _, m := range c12Modules {
			if bm, ok := c4eapp.ModuleBasics[m]; ok {
				if err := bm.ValidateGenesis(enc.Marshaler, enc.TxConfig, gs[m]); err != nil {
					report("export-invalid:"+m+":"+errKind(err), fmt.Sprintf("exported genesis of %s does not validate: %v", m, err), pnames)
				}
			}
		}
		w2 = harness.NewWorldAt(exp1.AppState, n.Header.Time, exp1.Height)
	}()
	if failed || w2 == nil {
		return
	}
	// app1 continues with the next block at the same time the restored chain starts
	n.Header.Height++
	n.Header.AppHash = nil
	n.App.BeginBlock(abci.RequestBeginBlock{Header: n.Header})
	w1 := n.World
	// re-export of the restored application
	func() {
		defer func() {
			if r := recover(); r != nil {
				report("reexport-panics", fmt.Sprintf("export of the restored application panicked: %v", r), pnames)
			}
		}()
		exp2, err := w2.App.ExportAppStateAndValidators(false, nil)
		if err != nil {
			report("reexport-error", err.Error(), pnames)
			return
		}
		var g1, g2 map[string]json.RawMessage
		_ = json.Unmarshal(exp1AppState, &g1)
		_ = json.Unmarshal(exp2.AppState, &g2)
		for _, m := range c12Modules {
			if canonJSON(g1[m]) != canonJSON(g2[m]) {
				report("reexport-differs:"+m, fmt.Sprintf("re-exported genesis of %s differs from the first export", m), pnames)
			}
		}
	}()
	_ = height
	// stores right after import
	r1, r2 := w1.Root(), w2.Root()
	storesDiffer := false
	for _, s := range c12Stores {
		d1, d2 := normStore(w1, s, harness.DumpStore(w1.App, r1, s)), normStore(w2, s, harness.DumpStore(w2.App, r2, s))
		if pf := keyPrefixes(d1, d2); pf != "" {
			storesDiffer = true
			report("store-differs-after-import:"+s+":"+pf, fmt.Sprintf("store %s differs between the original and the restored application (keys: %s)", s, pf), pnames)
		}
	}
	if storesDiffer {
		return // everything after this point would only restate the same loss
	}
	owners := []string{"A", "B"}
	if q1, q2 := queryDump(w1, r1, owners), queryDump(w2, r2, owners); q1 != q2 {
		report("queries-differ-after-import:"+diffLineKey(q1, q2), "custom query answers differ right after import: "+firstDiff(q1, q2), pnames)
	}
	// continuations on both applications
	bare := *scn
	bare.NewAux, bare.StepOracle, bare.StateOracle, bare.BlockPanicProperty = nil, nil, nil, ""
	wk1 := &scnWorker{scn: &bare, w: w1, root: &scnState{ctx: r1}}
	wk2 := &scnWorker{scn: &bare, w: w2, root: &scnState{ctx: r2}}
	var rec func(s1, s2 *scnState, depth int, cont []string)
	rec = func(s1, s2 *scnState, depth int, cont []string) {
		if depth == 0 {
			return
		}
		for ei := range bare.Events {
			if bare.Events[ei].Custom != nil {
				continue
			}
			a, _ := wk1.applyRaw(s1, ei)
			b, _ := wk2.applyRaw(s2, ei)
			if a.state == nil && b.state == nil {
				continue
			}
			atomic.AddInt64(&st.continuations, 1)
			c2 := append(append([]string{}, cont...), bare.Events[ei].Name)
			full := append(append([]string{}, pnames...), append([]string{"<export/import>"}, c2...)...)
			kind := evKind(bare.Events[ei].Name)
			if (a.state == nil) != (b.state == nil) || a.out.Key() != b.out.Key() {
				report("behaviour-differs:outcome:"+kind, fmt.Sprintf("after the restart %s gives %s on the original and %s on the restored application (%s | %s)", bare.Events[ei].Name, a.out.Key(), b.out.Key(), firstLine(a.out.Log), firstLine(b.out.Log)), full)
				continue
			}
			if a.out.Class == harness.Panic {
				continue
			}
			var diffStores []string
			for _, s := range c12Stores {
				if harness.StoreDigest(w1.App, a.state.ctx, s) != harness.StoreDigest(w2.App, b.state.ctx, s) {
					if keyPrefixes(normStore(w1, s, harness.DumpStore(w1.App, a.state.ctx, s)), normStore(w2, s, harness.DumpStore(w2.App, b.state.ctx, s))) != "" {
						diffStores = append(diffStores, s)
					}
				}
			}
			if len(diffStores) > 0 {
				report("behaviour-differs:state:"+kind+":"+strings.Join(diffStores, ","), fmt.Sprintf("after the restart %s leaves different %v on the original and the restored application", bare.Events[ei].Name, diffStores), full)
				continue
			}
			if e1, e2 := customEvents(a.out.Events), customEvents(b.out.Events); e1 != e2 {
				report("behaviour-differs:events:"+kind, fmt.Sprintf("after the restart %s emits different events: %s", bare.Events[ei].Name, firstDiff(e1, e2)), full)
			}
			if q1, q2 := queryDump(w1, a.state.ctx, owners), queryDump(w2, b.state.ctx, owners); q1 != q2 {
				report("behaviour-differs:queries:"+kind+":"+diffLineKey(q1, q2), fmt.Sprintf("after the restart and %s the custom queries answer differently: %s", bare.Events[ei].Name, firstDiff(q1, q2)), full)
			}
			rec(a.state, b.state, depth-1, c2)
		}
	}
	rec(wk1.root, wk2.root, contDepth, nil)
}

// normStore removes one representation difference that carries no data: the distributor's burn
// state is stored with an empty account by the running module and without one after an import
// (State.Validate demands that form in genesis); both decode to the same burn state.
func normStore(w *harness.World, store string, dump map[string]string) map[string]string {
	if store != dtypes.StoreKey {
		return dump
	}
	out := map[string]string{}
	for k, v := range dump {
		kb, _ := hex.DecodeString(k)
		if bytes.HasPrefix(kb, dtypes.StateKeyPrefix) {
			vb, _ := hex.DecodeString(v)
			var st dtypes.State
			if err := w.App.AppCodec().Unmarshal(vb, &st); err == nil && st.Burn && st.Account != nil && st.Account.Id == "" && st.Account.Type == "" {
				st.Account = nil
				v = hex.EncodeToString(w.App.AppCodec().MustMarshal(&st))
			}
		}
		out[k] = v
	}
	return out
}

// errKind keeps the stable tail of a validation error (without addresses).
func errKind(err error) string {
	s := err.Error()
	if i := strings.LastIndex(s, "error: "); i >= 0 {
		s = s[i+len("error: "):]
	}
	if len(s) > 80 {
		s = s[:80]
	}
	return s
}

type rawStep struct {
	state *scnState
	out   harness.Outcome
}

// applyRaw runs one event without oracles and returns the outcome with events.
func (w *scnWorker) applyRaw(st *scnState, evi int) (rawStep, bool) {
	ev := &w.scn.Events[evi]
	var next sdk.Context
	var out harness.Outcome
	if ev.Block > 0 {
		next, out = w.w.NextBlock(st.ctx, ev.Block)
	} else {
		msg, signer := ev.Build(View{App: w.w.App, Ctx: st.ctx})
		if msg == nil {
			return rawStep{}, false
		}
		next, out = w.w.ExecMsg(st.ctx, msg, harness.ExecOpts{Ante: !ev.Gov, Signer: signer, Fee: ev.Fee})
	}
	return rawStep{state: &scnState{ctx: next}, out: out}, true
}

func evKind(name string) string {
	if i := strings.IndexAny(name, "(+"); i > 0 {
		return name[:i]
	}
	return name
}

func firstDiff(a, b string) string {
	la, lb := strings.Split(a, "\n"), strings.Split(b, "\n")
	for i := 0; i < len(la) && i < len(lb); i++ {
		if la[i] != lb[i] {
			x, y := la[i], lb[i]
			if len(x) > 300 {
				x = x[:300]
			}
			if len(y) > 300 {
				y = y[:300]
			}
			return fmt.Sprintf("original: %q restored: %q", x, y)
		}
	}
	return fmt.Sprintf("lengths %d vs %d", len(la), len(lb))
}

func diffLineKey(a, b string) string {
	la, lb := strings.Split(a, "\n"), strings.Split(b, "\n")
	for i := 0; i < len(la) && i < len(lb); i++ {
		if la[i] != lb[i] {
			if j := strings.Index(la[i], ":"); j > 0 {
				k := la[i][:j]
				if p := strings.Index(k, "("); p > 0 {
					k = k[:p]
				}
				return k
			}
		}
	}
	return "?"
}

// c12StateOracle: module-level export -> JSON -> validate -> wipe -> import on a branch of every explored state.
func c12StateOracle(st *c12Stats) func(w *harness.World, ctx sdk.Context, aux interface{}) []*explore.Violation {
	return func(w *harness.World, ctx sdk.Context, aux interface{}) []*explore.Violation {
		var vs []*explore.Violation
		atomic.AddInt64(&st.restartsA, 1)
		before := map[string]map[string]string{}
		for _, s := range c12Stores[:4] {
			before[s] = harness.DumpStore(w.App, ctx, s)
		}
		cc, reps := w.RestartModules(ctx)
		for _, r := range reps {
			if r.ValidateErr != nil {
				vs = append(vs, &explore.Violation{Property: "C12", Sig: "C12:export-invalid:" + r.Module, What: fmt.Sprintf("exported genesis of %s does not validate: %v", r.Module, r.ValidateErr)})
			}
			if r.ImportPanic != "" {
				vs = append(vs, &explore.Violation{Property: "C12", Sig: "C12:import-panics:" + r.Module, What: fmt.Sprintf("InitGenesis of %s panicked on its own export: %s", r.Module, firstLine(r.ImportPanic))})
				continue
			}
			if pf := keyPrefixes(normStore(w, r.Module, before[r.Module]), normStore(w, r.Module, harness.DumpStore(w.App, cc, r.Module))); pf != "" {
				vs = append(vs, &explore.Violation{Property: "C12", Sig: "C12:store-differs-after-import:" + r.Module + ":" + pf, What: fmt.Sprintf("store %s differs after export -> import (keys: %s)", r.Module, pf)})
			}
		}
		return vs
	}
}

func runC12(rc *RunCtx) {
	depthA, depthB, cont := 3, 2, 1
	if rc.Thorough() {
		depthA, depthB, cont = 4, 3, 2
	}
	var st c12Stats
	scns := []*Scenario{
		{Name: "c12-supply(c01)", Genesis: harness.BuildGenesis(c01Genesis()), T0: harness.T0, Events: c01Events()},
		vestScenario("c12-vesting(c05)", "C12", c05Cfg()),
		{Name: "c12-params(c10)", Genesis: harness.BuildGenesis(c10Genesis()), T0: harness.T0, Events: c10Events(false)},
		{Name: "c12-signature(c15)", Genesis: harness.BuildGenesis(harness.Genesis{Balances: map[string]sdk.Coins{"sigA": coins(5), "sigB": coins(5)}}), T0: harness.T0, Events: c15Events(loadSigFixtures())},
		{Name: "c12-lineage(c17)", Genesis: harness.BuildGenesis(c17Genesis()), T0: harness.T0, Events: c17Events(false)},
	}
	cov := map[string]interface{}{}
	states, transitions, points := 0, 0, 0
	var samples []interface{}
	var mu sync.Mutex
	for _, scn := range scns {
		scn.NewAux, scn.StepOracle = nil, nil
		scn.StateOracle = c12StateOracle(&st)
		scn.BlockPanicProperty = ""
		// drop the harness-level restart letter: export points are taken at every state anyway
		var evs []Ev
		for _, e := range scn.Events {
			if e.Custom == nil {
				evs = append(evs, e)
			}
		}
		scn.Events = evs
		sys := scnSystem{scn}
		res := explore.Run(sys, explore.Options{MaxDepth: depthA, Workers: rc.Workers, Budget: 5 * time.Minute, KeepTree: true, Progress: func(s string) { rc.Logf("%s: %s", scn.Name, s) }})
		rc.ViolateAll(res.Violations)
		events := sys.Events()
		states += res.States
		transitions += res.Transitions
		var pts [][]uint16
		for _, n := range res.Tree {
			if len(n.Path) <= depthB {
				pts = append(pts, n.Path)
			}
		}
		points += len(pts)
		ParallelFor(rc.Workers, len(pts), func(_ int, i int) {
			c12ExportPoint(scn, events, pts[i], cont, &st, func(sig, what string, p []string) {
				rc.Violate(&explore.Violation{Property: "C12", Sig: "C12:" + sig, What: scn.Name + ": " + what, Path: p})
			})
			if i%(len(pts)/2+1) == 1 {
				mu.Lock()
				samples = append(samples, map[string]interface{}{"scenario": scn.Name, "export_after": names(events, pts[i])})
				mu.Unlock()
			}
		})
		cov[scn.Name] = map[string]interface{}{"states": res.States, "transitions": res.Transitions, "depth_complete": res.DepthComplete, "abci_export_points": len(pts), "alphabet_size": len(events)}
		rc.Logf("%s: %d ABCI export points done", scn.Name, len(pts))
	}
	cov["states"] = states
	cov["transitions"] = transitions
	cov["traces_validated_against_impl"] = int(st.points)
	cov["abci_export_points"] = int(st.points)
	cov["continuations_compared"] = int(st.continuations)
	cov["module_level_restarts_on_branches"] = int(st.restartsA)
	cov["continuation_depth"] = cont
	cov["samples"] = samples
	cov["exhaustive"] = true
	rc.Cov = cov
	rc.Level = "model_checking"
	rc.Assume = []string{"export points: every state of the BFS tree up to the stated depth, reached through real ABCI (signed transactions, commits); restart = real ExportAppStateAndValidators + InitChain of a second application", "continuations after the restart run in branching mode on both applications (bound to ABCI by the conformance checks of C01/C05/C10/C15/C17)", "compared stores: the four custom modules, bank and auth"}
	_ = bytes.Equal
}
