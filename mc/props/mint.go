package props

import (
	"fmt"
	"math/big"
	"sort"
	"time"

	"c4emc/harness"
	"c4emc/ref"

	mtypes "github.com/chain4energy/c4e-chain/x/cfeminter/types"
	codectypes "github.com/cosmos/cosmos-sdk/codec/types"
	sdk "github.com/cosmos/cosmos-sdk/types"
)

// mp is one period of a minter configuration in neutral form (times relative to T0).
type mp struct {
	Kind   ref.PeriodKind
	Amount string
	Step   time.Duration
	Mult   string
	End    time.Duration // 0 = no end (last period)
}

type mintCfg struct {
	Start   time.Duration
	Periods []mp
	Denom   string
	FirstID int // sequence id of the first period (0 means 1); validation only asks for consecutive ids > 0
}

func (c mintCfg) first() int {
	if c.FirstID > 0 {
		return c.FirstID
	}
	return 1
}

func (c mintCfg) String() string {
	s := fmt.Sprintf("start=%s", c.Start)
	if c.first() != 1 {
		s += fmt.Sprintf(" ids-from-%d", c.first())
	}
	for _, p := range c.Periods {
		switch p.Kind {
		case ref.NoMint:
			s += " none"
		case ref.Linear:
			s += " lin(" + p.Amount + ")"
		case ref.ExpStep:
			s += fmt.Sprintf(" exp(%s,%s,x%s)", p.Amount, p.Step, p.Mult)
		}
		if p.End != 0 {
			s += fmt.Sprintf("@%s", p.End)
		}
	}
	return s
}

func mustInt(s string) sdk.Int {
	i, ok := sdk.NewIntFromString(s)
	if !ok {
		panic("bad int " + s)
	}
	return i
}

func (c mintCfg) Params() mtypes.Params {
	p := mtypes.Params{MintDenom: harness.Denom, StartTime: harness.T0.Add(c.Start)}
	if c.Denom != "" {
		p.MintDenom = c.Denom
	}
	for i, per := range c.Periods {
		var cfg mtypes.MinterConfigI
		switch per.Kind {
		case ref.NoMint:
			cfg = &mtypes.NoMinting{}
		case ref.Linear:
			cfg = &mtypes.LinearMinting{Amount: mustInt(per.Amount)}
		case ref.ExpStep:
			cfg = &mtypes.ExponentialStepMinting{Amount: mustInt(per.Amount), StepDuration: per.Step, AmountMultiplier: sdk.MustNewDecFromStr(per.Mult)}
		}
		any, err := codectypes.NewAnyWithValue(cfg)
		if err != nil {
			panic(err)
		}
		m := &mtypes.Minter{SequenceId: uint32(i + c.first()), Config: any}
		if per.End != 0 {
			t := harness.T0.Add(per.End)
			m.EndTime = &t
		}
		p.Minters = append(p.Minters, m)
	}
	return p
}

func (c mintCfg) Schedule() ref.Schedule {
	s := ref.Schedule{Start: harness.T0.Add(c.Start)}
	for _, per := range c.Periods {
		p := ref.Period{Kind: per.Kind, Step: per.Step}
		if per.Amount != "" {
			p.Amount = mustInt(per.Amount).BigInt()
		}
		if per.Mult != "" {
			p.Mult = ratOfDec(sdk.MustNewDecFromStr(per.Mult))
		}
		if per.End != 0 {
			t := harness.T0.Add(per.End)
			p.End = &t
		}
		s.Periods = append(s.Periods, p)
	}
	return s
}

func (c mintCfg) Genesis(lastMint time.Time) *mtypes.GenesisState {
	return &mtypes.GenesisState{Params: c.Params(), MinterState: c.freshState(lastMint)}
}

func (c mintCfg) freshState(t time.Time) mtypes.MinterState {
	ms := freshMinterState(t)
	ms.SequenceId = uint32(c.first())
	return ms
}

func freshMinterState(t time.Time) mtypes.MinterState {
	return mtypes.MinterState{SequenceId: 1, AmountMinted: sdk.ZeroInt(), RemainderToMint: sdk.ZeroDec(), RemainderFromPreviousMinter: sdk.ZeroDec(), LastMintBlockTime: t}
}

// grid of block instants for a configuration: start, every period end and the step boundaries next to
// them, each +-1ms / +-1ns, and a far jump. Limited to n instants (priority order), sorted.
func (c mintCfg) grid(n int) []time.Duration {
	var prio []time.Duration
	add := func(d time.Duration) {
		if d <= 0 {
			return
		}
		for _, x := range prio {
			if x == d {
				return
			}
		}
		prio = append(prio, d)
	}
	ps := c.Start
	var last time.Duration
	for _, p := range c.Periods {
		if p.End != 0 {
			add(p.End)
		}
		if p.Kind == ref.ExpStep {
			add(ps + p.Step)
		}
		if p.End != 0 {
			ps = p.End
			last = p.End
		}
	}
	if last == 0 {
		last = c.Start
	}
	add(last + 7*time.Second + 300*time.Millisecond)
	// second tier: neighbours
	ps = c.Start
	for _, p := range c.Periods {
		if p.End != 0 {
			add(p.End - time.Millisecond)
			add(p.End + time.Nanosecond)
		}
		if p.Kind == ref.ExpStep {
			add(ps + p.Step - time.Nanosecond)
			add(ps + p.Step + time.Millisecond)
			add(ps + p.Step/2)
		} else {
			add(ps + 1500*time.Millisecond)
		}
		if p.End != 0 {
			ps = p.End
		}
	}
	add(c.Start + time.Millisecond)
	ps = c.Start
	for _, p := range c.Periods {
		if p.Kind == ref.ExpStep {
			add(ps + 2*p.Step)
			add(ps + 2*p.Step + p.Step/4)
		}
		if p.End != 0 {
			add(p.End - time.Nanosecond)
			add(p.End + time.Millisecond)
			ps = p.End
		}
	}
	add(last + 100*time.Second)
	if len(prio) > n {
		prio = prio[:n]
	}
	sort.Slice(prio, func(i, j int) bool { return prio[i] < prio[j] })
	return prio
}

func bigStr(b *big.Int) string { return b.String() }
