package props

import (
	"fmt"
	"math/big"
	"sync/atomic"
	"time"

	"c4emc/explore"
	"c4emc/harness"
	"c4emc/ref"

	dtypes "github.com/chain4energy/c4e-chain/x/cfedistributor/types"
	mtypes "github.com/chain4energy/c4e-chain/x/cfeminter/types"
	vtypes "github.com/chain4energy/c4e-chain/x/cfevesting/types"
	sdk "github.com/cosmos/cosmos-sdk/types"
	abci "github.com/tendermint/tendermint/abci/types"
)

func init() { Register(&Check{ID: "C18", Level: "model_checking", Run: runC18}) }

// c18DistEvents: a block's Distribution and DistributionBurn events of every sub-distributor add
// up to that sub-distributor's inflow (taken from the reference flow model).
func c18DistEvents(evs []abci.Event, m *ref.DistModel, report distViol) {
	sums := map[string]sdk.DecCoins{}
	for _, e := range evs {
		msg, err := sdk.ParseTypedEvent(e)
		if err != nil {
			continue
		}
		switch ev := msg.(type) {
		case *dtypes.Distribution:
			sums[ev.Subdistributor] = sums[ev.Subdistributor].Add(ev.Amount...)
		case *dtypes.DistributionBurn:
			sums[ev.Subdistributor] = sums[ev.Subdistributor].Add(ev.Amount...)
		}
	}
	names := map[string]bool{}
	for n := range sums {
		names[n] = true
	}
	for n := range m.LastInflow {
		names[n] = true
	}
	for n := range names {
		for _, d := range []string{harness.Denom, denomB} {
			got := sums[n].AmountOf(d).BigInt()
			want := big.NewInt(0)
			if m.LastInflow[n] != nil && m.LastInflow[n][d] != nil {
				want = m.LastInflow[n][d]
			}
			if got.Cmp(want) != 0 {
				report("distribution-events-sum", fmt.Sprintf("events of sub-distributor %s add up to %s%s, its inflow was %s%s", n, fpStr(got), d, fpStr(want), d))
			}
		}
	}
}

// c18WithdrawEvents: one WithdrawAvailable per pool that paid, carrying exactly that pool's amount.
func c18WithdrawEvents(si *StepInfo, owner string) []*explore.Violation {
	var vs []*explore.Violation
	bad := func(sig, f string, a ...interface{}) {
		vs = append(vs, &explore.Violation{Property: "C18", Sig: "C18:" + sig, What: si.Ev.Name + ": " + fmt.Sprintf(f, a...)})
	}
	app := si.W.App
	pre, _ := app.CfevestingKeeper.GetAccountVestingPools(si.Pre, owner)
	post, _ := app.CfevestingKeeper.GetAccountVestingPools(si.Post, owner)
	paid := map[string]sdk.Int{}
	total := sdk.ZeroInt()
	for i, p := range pre.VestingPools {
		d := post.VestingPools[i].Withdrawn.Sub(p.Withdrawn)
		if d.IsPositive() {
			paid[p.Name] = d
			total = total.Add(d)
		}
	}
	seen := map[string]int{}
	evTotal := sdk.ZeroInt()
	for _, e := range si.Out.Events {
		msg, err := sdk.ParseTypedEvent(e)
		if err != nil {
			continue
		}
		ev, ok := msg.(*vtypes.WithdrawAvailable)
		if !ok {
			continue
		}
		seen[ev.VestingPoolName]++
		want, has := paid[ev.VestingPoolName]
		if !has {
			bad("withdraw-event-for-nonpaying-pool", "event for pool %s (amount %s) although nothing was withdrawn from it", ev.VestingPoolName, ev.Amount)
			continue
		}
		if ev.Amount != want.String()+harness.Denom {
			bad("withdraw-event-amount", "event for pool %s reports %s, withdrawn from that pool: %s%s", ev.VestingPoolName, ev.Amount, want, harness.Denom)
		}
		if c, err := sdk.ParseCoinNormalized(ev.Amount); err == nil {
			evTotal = evTotal.Add(c.Amount)
		}
		if ev.Owner != owner {
			bad("withdraw-event-owner", "event owner %s, actual %s", ev.Owner, owner)
		}
	}
	for name := range paid {
		if seen[name] != 1 {
			bad("withdraw-event-missing", "pool %s paid %s but has %d events", name, paid[name], seen[name])
		}
	}
	if len(vs) == 0 && !evTotal.Equal(total) {
		bad("withdraw-events-sum", "events add up to %s, paid out %s", evTotal, total)
	}
	return vs
}

func runC18(rc *RunCtx) {
	cov := map[string]interface{}{}
	states, transitions := 0, 0

	// (1) mint event vs supply minted in the block
	{
		red := mintTypesReduced()
		var cfgs []mintCfg
		for _, r1 := range red {
			for _, r2 := range red {
				for _, r3 := range nonLinear(red) {
					cfgs = append(cfgs, mintCfg{Periods: []mp{withEnd(r1, 15*time.Second), withEnd(r2, 30*time.Second), r3}, Denom: c19Denom})
				}
			}
		}
		// four periods: a block can mint for three or four periods at once
		for _, r1 := range red[:4] {
			for _, r2 := range red[1:5] {
				for _, r3 := range red[:4] {
					cfgs = append(cfgs, mintCfg{Periods: []mp{withEnd(r1, 10*time.Second), withEnd(r2, 20*time.Second), withEnd(r3, 30*time.Second), red[4]}, Denom: c19Denom})
				}
			}
		}
		gridN := 6
		if rc.Thorough() {
			gridN = 8
		}
		genesis := harness.BuildGenesis(harness.Genesis{})
		worlds := make([]*harness.World, rc.Workers)
		var blocks, nonzero int64
		ParallelFor(rc.Workers, len(cfgs), func(wk, i int) {
			if worlds[wk] == nil {
				worlds[wk] = harness.NewWorld(genesis, harness.T0)
			}
			w := worlds[wk]
			cfg := cfgs[i]
			params := cfg.Params()
			k := w.App.CfeminterKeeper
			root := harness.Branch(w.Root())
			if k.SetParams(root, params) != nil {
				return
			}
			k.SetMinterState(root, cfg.freshState(harness.T0))
			grid := cfg.grid(gridN)
			var cad []time.Duration
			var rec func(ctx sdk.Context, i int)
			rec = func(ctx sdk.Context, i int) {
				for j := i + 1; j < len(grid); j++ {
					c := harness.Branch(ctx)
					before := w.App.BankKeeper.GetSupply(c, c19Denom).Amount
					c = stepMint(w, c, harness.T0.Add(grid[j]))
					cad = append(cad, grid[j])
					atomic.AddInt64(&blocks, 1)
					minted := w.App.BankKeeper.GetSupply(c, c19Denom).Amount.Sub(before)
					if minted.IsPositive() {
						atomic.AddInt64(&nonzero, 1)
					}
					evs := harness.EventsOfType(c.EventManager().ABCIEvents(), "chain4energy.c4echain.cfeminter.Mint")
					if len(evs) != 1 {
						rc.Violate(&explore.Violation{Property: "C18", Sig: "C18:mint-event-count", What: fmt.Sprintf("%s: %d Mint events in a block", cfg, len(evs)), Path: cadNames(cad)})
					} else if a, _ := harness.Attr(evs[0], "amount"); a != minted.String() {
						rc.Violate(&explore.Violation{Property: "C18", Sig: "C18:mint-event-amount", What: fmt.Sprintf("%s: Mint event reports %s, the block minted %s", cfg, a, minted), Path: cadNames(cad)})
					}
					rec(c, j)
					cad = cad[:len(cad)-1]
				}
			}
			rec(root, -1)
		})
		cov["mint_blocks_checked"] = int(blocks)
		cov["mint_blocks_minting_nonzero"] = int(nonzero)
		cov["mint_configurations"] = len(cfgs)
		states += int(blocks)
		transitions += int(blocks)
	}

	// (2) distribution events over the C03 configuration space
	{
		sub := &RunCtx{ID: "C18", Tier: rc.Tier, Seed: rc.Seed, Workers: rc.Workers, Start: rc.Start}
		runDist(sub, "C18")
		rc.ViolateAll(sub.viols)
		cov["distribution"] = sub.Cov
		states += sub.Cov["states"].(int)
		transitions += sub.Cov["transitions"].(int)
	}

	// (3) withdrawal events over the C06 exploration (owners with several pools maturing at different times)
	{
		scn := vestScenario("c18-withdraw", "C18", c06Cfg())
		scn.StateOracle = nil
		var checked int64
		scn.StepOracle = func(si *StepInfo) (interface{}, []*explore.Violation) {
			if si.Ev.Block > 0 || si.Out.Class != harness.OK {
				return si.Aux, nil
			}
			switch m := si.Msg.(type) {
			case *vtypes.MsgWithdrawAllAvailable:
				atomic.AddInt64(&checked, 1)
				return si.Aux, c18WithdrawEvents(si, m.Owner)
			case *vtypes.MsgSendToVestingAccount:
				atomic.AddInt64(&checked, 1)
				return si.Aux, c18WithdrawEvents(si, m.Owner)
			}
			return si.Aux, nil
		}
		scn.NewAux = nil
		depth := 5
		if rc.Thorough() {
			depth = 6
		}
		sys := scnSystem{scn}
		res := explore.Run(sys, explore.Options{MaxDepth: depth, Workers: rc.Workers, Budget: 10 * time.Minute, KeepTree: true, Progress: func(s string) { rc.Logf("withdraw: %s", s) }})
		rc.ViolateAll(res.Violations)
		wc := CovFromResult(sys.Events(), res)
		wc["withdraw_transitions_checked"] = int(checked)
		delete(wc, "per_event_outcomes")
		cov["withdraw"] = wc
		cov["samples"] = wc["samples"]
		states += res.States
		transitions += res.Transitions
		cov["exhaustive"] = res.Exhaustive
	}
	cov["states"] = states
	cov["transitions"] = transitions
	cov["traces_validated_against_impl"] = 0
	rc.Cov = cov
	rc.Level = "model_checking"
	rc.Assume = []string{"typed events are read from the event manager of the block / message that emitted them", "the sub-distributor inflow is taken from the reference flow model that C04 validates against the implementation"}
	_ = mtypes.ModuleName
}
