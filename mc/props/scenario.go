package props

import (
	"fmt"
	"sort"
	"strings"
	"sync"
	"time"

	"c4emc/explore"
	"c4emc/harness"

	c4eapp "github.com/chain4energy/c4e-chain/app"
	sdk "github.com/cosmos/cosmos-sdk/types"
)

// View is read access to a real state, used by event builders so that the same event yields
// the same concrete message in mode A and mode B.
type View struct {
	App *c4eapp.App
	Ctx sdk.Context
}

// Ev is one letter of a scenario alphabet.
type Ev struct {
	Name  string
	Block time.Duration // > 0: advance to the next block at time+Block
	// Build returns the concrete message and the label of the signing key. A nil message means
	// the event is not enabled in this state.
	Build func(v View) (sdk.Msg, string)
	// Then, when set, returns further messages carried by the same transaction / proposal: they run
	// after the first one and the whole unit is dropped unless every message succeeds.
	Then func(v View) []sdk.Msg
	Gov  bool      // executed the way x/gov executes authority messages (no tx, no ante)
	Fee  sdk.Coins // fee of the transaction (mode B real, mode A emulated)
	// Custom is a harness-level event (e.g. module export/import restart) executed on a branch in
	// mode A; histories containing it are not replayed in mode B. ok=false: not enabled here.
	Custom func(w *harness.World, ctx sdk.Context) (next sdk.Context, out harness.Outcome, ok bool)
}

// StepInfo is what a step oracle sees.
type StepInfo struct {
	W    *harness.World
	Pre  sdk.Context
	Post sdk.Context
	Ev   *Ev
	Msg  sdk.Msg
	Sign string
	Out  harness.Outcome
	Aux  interface{} // model state before the step
}

// Scenario binds genesis, alphabet and oracles.
type Scenario struct {
	Name        string
	Genesis     []byte
	T0          time.Time
	Events      []Ev
	ExtraStores []string
	// BlockFn, when set, replaces the full-application block processing by a module-level one
	// (mode A only; such scenarios are not conformance-replayed).
	BlockFn func(w *harness.World, ctx sdk.Context)
	NewAux  func(w *harness.World, root sdk.Context) interface{}
	// StepOracle checks one transition and returns the model state after it.
	StepOracle func(si *StepInfo) (interface{}, []*explore.Violation)
	// StateOracle checks one state.
	StateOracle func(w *harness.World, ctx sdk.Context, aux interface{}) []*explore.Violation
	// PanicIsViolation: a panic in block processing is reported under this property id ("" = not reported here).
	BlockPanicProperty string
	// RepeatProperty / Repeat: every transition is executed Repeat more times on fresh branches of the
	// same state; outcome, events and resulting state must be identical every time (Go randomises the
	// order of every map range, so a handler that lets a map decide the order of events or writes
	// gives different results from one execution to the next even inside one process).
	RepeatProperty string
	Repeat         int
}

type scnState struct {
	ctx sdk.Context
	aux interface{}
}

type scnWorker struct {
	scn  *Scenario
	w    *harness.World
	root *scnState
}

type scnSystem struct{ scn *Scenario }

func (s scnSystem) Events() []string {
	out := make([]string, len(s.scn.Events))
	for i, e := range s.scn.Events {
		out[i] = e.Name
	}
	return out
}

func (s scnSystem) NewWorker() explore.Worker {
	w := harness.NewWorld(s.scn.Genesis, s.scn.T0)
	root := &scnState{ctx: w.Root()}
	if s.scn.NewAux != nil {
		root.aux = s.scn.NewAux(w, root.ctx)
	}
	return &scnWorker{scn: s.scn, w: w, root: root}
}

func (w *scnWorker) Root() interface{} { return w.root }

func (w *scnWorker) Digest(s interface{}) string {
	return harness.Digest(w.w.App, s.(*scnState).ctx, w.scn.T0, w.scn.ExtraStores...)
}

func (w *scnWorker) CheckState(s interface{}) []*explore.Violation {
	if w.scn.StateOracle == nil {
		return nil
	}
	st := s.(*scnState)
	return w.scn.StateOracle(w.w, st.ctx, st.aux)
}

func (w *scnWorker) Apply(s interface{}, evi int, check bool) (explore.Step, []*explore.Violation) {
	st := s.(*scnState)
	ev := &w.scn.Events[evi]
	var next sdk.Context
	var out harness.Outcome
	var msg sdk.Msg
	var signer string
	if ev.Custom != nil {
		var ok bool
		next, out, ok = ev.Custom(w.w, st.ctx)
		if !ok {
			return explore.Step{}, nil
		}
	} else if ev.Block > 0 {
		if w.scn.BlockFn != nil {
			next, out = w.w.ModuleBlock(st.ctx, ev.Block, func(c sdk.Context) { w.scn.BlockFn(w.w, c) })
		} else {
			next, out = w.w.NextBlock(st.ctx, ev.Block)
		}
	} else {
		msg, signer = ev.Build(View{App: w.w.App, Ctx: st.ctx})
		if msg == nil {
			return explore.Step{}, nil
		}
		var then []sdk.Msg
		if ev.Then != nil {
			then = ev.Then(View{App: w.w.App, Ctx: st.ctx})
		}
		next, out = w.w.ExecMsg(st.ctx, msg, harness.ExecOpts{Ante: !ev.Gov, Signer: signer, Fee: ev.Fee, Then: then})
	}
	child := &scnState{ctx: next, aux: st.aux}
	var vs []*explore.Violation
	if check && w.scn.Repeat > 0 && ev.Custom == nil && out.Class != harness.Panic {
		sigOf := func(c sdk.Context, o harness.Outcome) string {
			var sb strings.Builder
			sb.WriteString(o.Key())
			for _, e := range o.Events {
				sb.WriteString("|" + e.Type)
				for _, a := range e.Attributes {
					sb.WriteString(" " + string(a.Key) + "=" + string(a.Value))
				}
			}
			return sb.String() + "#" + harness.Digest(w.w.App, c, w.scn.T0, w.scn.ExtraStores...)
		}
		first := sigOf(next, out)
		for i := 0; i < w.scn.Repeat; i++ {
			var c2 sdk.Context
			var o2 harness.Outcome
			if ev.Block > 0 {
				if w.scn.BlockFn != nil {
					c2, o2 = w.w.ModuleBlock(st.ctx, ev.Block, func(c sdk.Context) { w.scn.BlockFn(w.w, c) })
				} else {
					c2, o2 = w.w.NextBlock(st.ctx, ev.Block)
				}
			} else {
				var then []sdk.Msg
				if ev.Then != nil {
					then = ev.Then(View{App: w.w.App, Ctx: st.ctx})
				}
				c2, o2 = w.w.ExecMsg(st.ctx, msg, harness.ExecOpts{Ante: !ev.Gov, Signer: signer, Fee: ev.Fee, Then: then})
			}
			if again := sigOf(c2, o2); again != first {
				p := 0
				for p < len(first) && p < len(again) && first[p] == again[p] {
					p++
				}
				lo := p - 80
				if lo < 0 {
					lo = 0
				}
				cut := func(x string) string {
					hi := p + 120
					if hi > len(x) {
						hi = len(x)
					}
					return x[lo:hi]
				}
				vs = append(vs, &explore.Violation{Property: w.scn.RepeatProperty, Sig: w.scn.RepeatProperty + ":same-state-same-event-different-result:" + evKind(ev.Name),
					What: fmt.Sprintf("%s executed again on the same state gives a different result: ...%s... vs ...%s...", ev.Name, cut(first), cut(again))})
				break
			}
		}
	}
	if ev.Block > 0 && out.Class == harness.Panic {
		if check && w.scn.BlockPanicProperty != "" {
			vs = append(vs, &explore.Violation{Property: w.scn.BlockPanicProperty, What: "block processing panicked: " + firstLine(out.Log),
				Sig: w.scn.BlockPanicProperty + ":blockpanic:" + panicSig(out), Detail: map[string]string{"panic": out.Log, "stack": trimStack(out.Stack)}})
		}
		return explore.Step{Child: child, Outcome: out.Key(), Dead: true}, vs
	}
	if w.scn.StepOracle != nil {
		si := &StepInfo{W: w.w, Pre: st.ctx, Post: next, Ev: ev, Msg: msg, Sign: signer, Out: out, Aux: st.aux}
		aux, svs := w.scn.StepOracle(si)
		child.aux = aux
		if check {
			vs = append(vs, svs...)
		}
	}
	return explore.Step{Child: child, Outcome: out.Key()}, vs
}

func firstLine(s string) string {
	for i, c := range s {
		if c == '\n' {
			return s[:i]
		}
	}
	if len(s) > 200 {
		return s[:200]
	}
	return s
}

// panicSig derives a stable signature from the first repository frame of a panic stack.
func panicSig(o harness.Outcome) string {
	fr := repoFrame(o.Stack)
	if fr != "" {
		return fr
	}
	return firstLine(o.Log)
}

// ---------------------------------------------------------------------------------------------
// conformance: replay BFS-tree paths through the ABCI driver

type ConformOpts struct {
	MaxTraces int
	Workers   int
	Seed      int64
	// BStep is called after every event in mode B (pre/post digests of the masked state can be
	// computed by the hook itself from n.Ctx()).
	BStep    func(n *harness.Node, ev *Ev, msg sdk.Msg, signer string, preDigest string, out harness.Outcome) []*explore.Violation
	Deadline time.Time
	// RejectedUnchanged: property id under which "a rejected transaction changed nothing but the
	// signer's own auth record" is decided after every DeliverTx with non-zero code.
	RejectedUnchanged string
}

type ConformResult struct {
	Traces          int
	Steps           int
	Mismatches      []string
	Violations      []*explore.Violation
	Capped          bool
	TotalTraces     int
	RejectedChecked int
	SkippedCustom   int
}

// RunEventB executes one scenario event on a node.
func RunEventB(scn *Scenario, n *harness.Node, ev *Ev) (sdk.Msg, string, harness.Outcome, bool) {
	if ev.Block > 0 {
		return nil, "", n.NextBlock(ev.Block), true
	}
	msg, signer := ev.Build(View{App: n.App, Ctx: n.Ctx()})
	if msg == nil {
		return nil, "", harness.Outcome{}, false
	}
	msgs := []sdk.Msg{msg}
	if ev.Then != nil {
		msgs = append(msgs, ev.Then(View{App: n.App, Ctx: n.Ctx()})...)
	}
	if ev.Gov {
		return msg, signer, n.GovExecAll(msgs), true
	}
	if len(msgs) > 1 {
		return msg, signer, n.DeliverMsgs(msgs, signer, ev.Fee), true
	}
	if n.SigSeam() && isSigMsg(msg) {
		// The application does not route cfesignature messages: a real transaction must be rejected
		// and change nothing but the ante effects. The handler's effect is then applied at the
		// msg-server seam on the deliver state so the trace can continue like in mode A.
		out := n.DeliverMsg(msg, signer, ev.Fee)
		if out.Class == harness.OK {
			return msg, signer, harness.Outcome{Class: harness.Err, Codespace: "harness", Code: 99, Log: "unrouted cfesignature message was accepted by DeliverTx"}, true
		}
		if out.Class == harness.Invalid {
			return msg, signer, out, true
		}
		return msg, signer, n.GovExec(msg), true
	}
	return msg, signer, n.DeliverMsg(msg, signer, ev.Fee), true
}

// Conform replays the maximal BFS-tree paths in mode B and compares digest and outcome class
// after every event with what mode A recorded.
func Conform(scn *Scenario, events []string, tree []explore.TreeNode, opt ConformOpts) *ConformResult {
	idx := explore.Index(tree)
	all := explore.MaximalPaths(tree)
	var paths [][]uint16
	skipped := 0
	for _, p := range all {
		custom := false
		for _, e := range p {
			if scn.Events[e].Custom != nil {
				custom = true
			}
		}
		if custom {
			skipped++
			continue
		}
		paths = append(paths, p)
	}
	res := &ConformResult{TotalTraces: len(paths), SkippedCustom: skipped}
	// deterministic order; the seed only rotates which traces come first when capped
	sort.Slice(paths, func(i, j int) bool { return fmt.Sprint(paths[i]) < fmt.Sprint(paths[j]) })
	if opt.MaxTraces > 0 && len(paths) > opt.MaxTraces {
		off := 0
		if opt.Seed != 0 {
			off = int(uint64(opt.Seed) % uint64(len(paths)))
		}
		// stride sample deterministically across the sorted list so all subtrees are touched
		stride := len(paths) / opt.MaxTraces
		sel := make([][]uint16, 0, opt.MaxTraces)
		for i := 0; i < opt.MaxTraces; i++ {
			sel = append(sel, paths[(off+i*stride)%len(paths)])
		}
		paths = sel
		res.Capped = true
	}
	var mu sync.Mutex
	ParallelFor(opt.Workers, len(paths), func(_ int, i int) {
		if !opt.Deadline.IsZero() && time.Now().After(opt.Deadline) {
			mu.Lock()
			res.Capped = true
			mu.Unlock()
			return
		}
		p := paths[i]
		n := harness.NewNode(scn.Genesis, scn.T0)
		steps := 0
		rejChecked := 0
		var mism []string
		var viols []*explore.Violation
		for j := range p {
			ev := &scn.Events[p[j]]
			pre := ""
			if opt.BStep != nil {
				pre = harness.Digest(n.App, n.Ctx(), scn.T0, scn.ExtraStores...)
			}
			preMasked := ""
			if opt.RejectedUnchanged != "" && ev.Block == 0 && !ev.Gov {
				if m, sg := ev.Build(View{App: n.App, Ctx: n.Ctx()}); m != nil {
					preMasked = harness.DigestMasked(n.App, n.Ctx(), scn.T0, harness.Addr(sg), scn.ExtraStores...)
				}
			}
			msg, signer, out, enabled := RunEventB(scn, n, ev)
			if !enabled {
				mism = append(mism, fmt.Sprintf("%v: step %d (%s) enabled in A, not in B", names(events, p), j, ev.Name))
				break
			}
			steps++
			node, ok := idx[fmt.Sprint(p[:j+1])]
			if !ok {
				mism = append(mism, fmt.Sprintf("%v: prefix %d missing from tree", names(events, p), j+1))
				break
			}
			d := harness.Digest(n.App, n.Ctx(), scn.T0, scn.ExtraStores...)
			if d != node.Digest || !sameOutcome(node.Outcome, out.Key()) {
				mism = append(mism, fmt.Sprintf("%v: after step %d (%s): A digest=%s outcome=%s, B digest=%s outcome=%s log=%s",
					names(events, p), j, ev.Name, node.Digest, node.Outcome, d, out.Key(), firstLine(out.Log)))
				break
			}
			if preMasked != "" && out.Class != harness.OK {
				post := harness.DigestMasked(n.App, n.Ctx(), scn.T0, harness.Addr(signer), scn.ExtraStores...)
				rejChecked++
				if post != preMasked {
					viols = append(viols, &explore.Violation{Property: opt.RejectedUnchanged, Path: names(events, p[:j+1]),
						Sig:  opt.RejectedUnchanged + ":rejected-tx-changed-state:" + sdk.MsgTypeURL(msg),
						What: fmt.Sprintf("transaction %s was rejected (%s) by DeliverTx but state other than the signer's auth record changed", ev.Name, out.Key())})
				}
			}
			if opt.BStep != nil {
				vs := opt.BStep(n, ev, msg, signer, pre, out)
				for _, v := range vs {
					v.Path = names(events, p[:j+1])
				}
				viols = append(viols, vs...)
			}
		}
		mu.Lock()
		res.Traces++
		res.Steps += steps
		res.RejectedChecked += rejChecked
		res.Mismatches = append(res.Mismatches, mism...)
		res.Violations = append(res.Violations, viols...)
		mu.Unlock()
	})
	sort.Strings(res.Mismatches)
	return res
}

// sameOutcome compares outcome classes; error codes of rejected transactions are compared too,
// except that ante-level rejections may carry different codes in the emulation.
func sameOutcome(a, b string) bool {
	if a == b {
		return true
	}
	return false
}
