package props

import (
	"fmt"
	"sort"
	"time"

	"c4emc/explore"
	"c4emc/harness"

	vtypes "github.com/chain4energy/c4e-chain/x/cfevesting/types"
	sdk "github.com/cosmos/cosmos-sdk/types"
	authtypes "github.com/cosmos/cosmos-sdk/x/auth/types"
	vestingtypes "github.com/cosmos/cosmos-sdk/x/auth/vesting/types"
	banktypes "github.com/cosmos/cosmos-sdk/x/bank/types"
	stakingtypes "github.com/cosmos/cosmos-sdk/x/staking/types"
)

func init() { Register(&Check{ID: "C17", Level: "model_checking", Run: runC17}) }

// lineage is the reference model: traced address -> genesis-derived?
type lineage map[string]bool

func (l lineage) clone() lineage {
	c := lineage{}
	for k, v := range l {
		c[k] = v
	}
	return c
}

func c17Genesis() harness.Genesis {
	t0 := harness.T0.Unix()
	// unbonding takes 30 s here, so that an undelegation completes within the explored block steps
	g := harness.Genesis{Balances: map[string]sdk.Coins{"A": coins(10)}, UnbondingTime: 30 * time.Second}
	mk := func(label string, ov, extra int64) {
		va := vestingtypes.NewContinuousVestingAccountRaw(vestingtypes.NewBaseVestingAccount(authtypes.NewBaseAccountWithAddress(harness.Addr(label)), coins(ov), t0+60), t0)
		g.Accounts = append(g.Accounts, va)
		g.ExtraBal = append(g.ExtraBal, banktypes.Balance{Address: harness.AddrS(label), Coins: coins(ov + extra)})
	}
	mk("GA", 30, 0) // holds nothing but its vesting coins: after delegating and moving the rest its balance is zero
	mk("NA", 30, 2)
	mk("UA", 30, 2)
	g.Vesting = &vtypes.GenesisState{
		Params:       vtypes.Params{Denom: harness.Denom},
		VestingTypes: []vtypes.GenesisVestingType{{Name: "t", LockupPeriod: 0, LockupPeriodUnit: "second", VestingPeriod: 60, VestingPeriodUnit: "second", Free: sdk.NewDecWithPrec(5, 1)}},
		AccountVestingPools: []*vtypes.AccountVestingPools{{Owner: harness.AddrS("A"), VestingPools: []*vtypes.VestingPool{
			{Name: "g", VestingType: "t", LockStart: harness.T0, LockEnd: harness.T0.Add(41 * time.Second), InitiallyLocked: sdk.NewInt(40), Withdrawn: sdk.ZeroInt(), Sent: sdk.ZeroInt(), GenesisPool: true},
			{Name: "o", VestingType: "t", LockStart: harness.T0, LockEnd: harness.T0.Add(41 * time.Second), InitiallyLocked: sdk.NewInt(40), Withdrawn: sdk.ZeroInt(), Sent: sdk.ZeroInt(), GenesisPool: false},
			// a genesis pool that comes after an ordinary pool of the same owner
			{Name: "g2", VestingType: "t", LockStart: harness.T0, LockEnd: harness.T0.Add(41 * time.Second), InitiallyLocked: sdk.NewInt(40), Withdrawn: sdk.ZeroInt(), Sent: sdk.ZeroInt(), GenesisPool: true}}}},
		VestingAccountTraces: []vtypes.VestingAccountTrace{
			{Id: 0, Address: harness.AddrS("GA"), Genesis: true},
			{Id: 1, Address: harness.AddrS("NA")},
		},
		VestingAccountTraceCount: 2,
	}
	g.ExtraBal = append(g.ExtraBal, banktypes.Balance{Address: harness.ModAddr(vtypes.ModuleName).String(), Coins: coins(120)})
	return g
}

func c17Events(thorough bool) []Ev {
	evs := []Ev{{Name: "block+1s", Block: time.Second}, {Name: "block+20s", Block: 20 * time.Second}, {Name: "block+40s", Block: 40 * time.Second}}
	for _, pool := range []string{"g", "o", "g2"} {
		pool := pool
		evs = append(evs, Ev{Name: "send(A." + pool + ",8->fresh)", Build: func(v View) (sdk.Msg, string) {
			_, to := freshAddr(v)
			if to == "" {
				return nil, ""
			}
			return vtypes.NewMsgSendToVestingAccount(harness.AddrS("A"), to, pool, sdk.NewInt(8), true), "A"
		}})
	}
	// without restart the new account starts and ends at the pool's lock end (41 s = block+40s, block+1s):
	// a cliff, fully locked up to and including that instant
	evs = append(evs, Ev{Name: "send(A.g,8->fresh,no-restart)", Build: func(v View) (sdk.Msg, string) {
		_, to := freshAddr(v)
		if to == "" {
			return nil, ""
		}
		return vtypes.NewMsgSendToVestingAccount(harness.AddrS("A"), to, "g", sdk.NewInt(8), false), "A"
	}})
	// the first account created in a history (R1) locks its free coins in an ordinary pool of its own and
	// sends from it: whatever R1's own lineage, an account out of a non-genesis pool is not genesis-derived
	evs = append(evs,
		Ev{Name: "pool(R1,own,2)", Build: func(v View) (sdk.Msg, string) {
			if v.App.AccountKeeper.GetAccount(v.Ctx, harness.Addr("R1")) == nil {
				return nil, ""
			}
			return vtypes.NewMsgCreateVestingPool(harness.AddrS("R1"), "own", sdk.NewInt(2), 100*time.Second, "t"), "R1"
		}},
		Ev{Name: "send(R1.own,1->fresh)", Build: func(v View) (sdk.Msg, string) {
			_, to := freshAddr(v)
			if to == "" || v.App.AccountKeeper.GetAccount(v.Ctx, harness.Addr("R1")) == nil {
				return nil, ""
			}
			return vtypes.NewMsgSendToVestingAccount(harness.AddrS("R1"), to, "own", sdk.NewInt(1), true), "R1"
		}})
	srcs := []string{"GA", "NA", "UA", "R1", "R2"}
	if thorough {
		srcs = append(srcs, "R3", "R4")
	}
	exists := func(v View, l string) bool { return v.App.AccountKeeper.GetAccount(v.Ctx, harness.Addr(l)) != nil }
	for _, s := range srcs {
		s := s
		evs = append(evs,
			Ev{Name: "split(" + s + ",2->fresh)", Build: func(v View) (sdk.Msg, string) {
				_, to := freshAddr(v)
				if to == "" || !exists(v, s) {
					return nil, ""
				}
				return vtypes.NewMsgSplitVesting(harness.AddrS(s), to, coins(2)), s
			}},
			Ev{Name: "move(" + s + "->fresh)", Build: func(v View) (sdk.Msg, string) {
				_, to := freshAddr(v)
				if to == "" || !exists(v, s) {
					return nil, ""
				}
				return vtypes.NewMsgMoveAvailableVesting(harness.AddrS(s), to), s
			}})
	}
	for _, s := range []string{"GA", "R1"} {
		s := s
		evs = append(evs,
			Ev{Name: "movedenoms(" + s + ",uc4e->fresh)", Build: func(v View) (sdk.Msg, string) {
				_, to := freshAddr(v)
				if to == "" || !exists(v, s) {
					return nil, ""
				}
				return vtypes.NewMsgMoveAvailableVestingByDenoms(harness.AddrS(s), to, []string{harness.Denom}), s
			}},
			Ev{Name: "delegate(" + s + ",3)", Build: func(v View) (sdk.Msg, string) {
				if !exists(v, s) {
					return nil, ""
				}
				return stakingtypes.NewMsgDelegate(harness.Addr(s), harness.ValAddr(), sdk.NewInt64Coin(harness.Denom, 3)), s
			}},
			// the unbonding completes in the staking EndBlocker of a block at least 30 s later
			Ev{Name: "undelegate(" + s + ",2)", Build: func(v View) (sdk.Msg, string) {
				if !exists(v, s) {
					return nil, ""
				}
				if _, found := v.App.StakingKeeper.GetDelegation(v.Ctx, harness.Addr(s), harness.ValAddr()); !found {
					return nil, ""
				}
				return stakingtypes.NewMsgUndelegate(harness.Addr(s), harness.ValAddr(), sdk.NewInt64Coin(harness.Denom, 2)), s
			}})
	}
	return evs
}

func c17Step(si *StepInfo) (interface{}, []*explore.Violation) {
	l := si.Aux.(lineage)
	if si.Ev.Block > 0 || si.Out.Class != harness.OK {
		return l, nil
	}
	n := l.clone()
	switch m := si.Msg.(type) {
	case *vtypes.MsgSendToVestingAccount:
		n[m.ToAddress] = m.Owner == harness.AddrS("A") && (m.VestingPoolName == "g" || m.VestingPoolName == "g2")
	case *vtypes.MsgSplitVesting:
		if d, traced := l[m.FromAddress]; traced {
			n[m.ToAddress] = d
		}
	case *vtypes.MsgMoveAvailableVesting:
		if d, traced := l[m.FromAddress]; traced {
			n[m.ToAddress] = d
		}
	case *vtypes.MsgMoveAvailableVestingByDenoms:
		if d, traced := l[m.FromAddress]; traced {
			n[m.ToAddress] = d
		}
	}
	return n, nil
}

func c17State(w *harness.World, ctx sdk.Context, aux interface{}) []*explore.Violation {
	l := aux.(lineage)
	var vs []*explore.Violation
	bad := func(sig, f string, a ...interface{}) {
		vs = append(vs, &explore.Violation{Property: "C17", Sig: "C17:" + sig, What: fmt.Sprintf(f, a...)})
	}
	k := w.App.CfevestingKeeper
	impl := map[string]bool{}
	for _, t := range k.GetAllVestingAccountTrace(ctx) {
		impl[t.Address] = t.IsGenesisOrFromGenesis()
	}
	var addrs []string
	for a := range impl {
		addrs = append(addrs, a)
	}
	for a := range l {
		if _, ok := impl[a]; !ok {
			addrs = append(addrs, a)
		}
	}
	sort.Strings(addrs)
	for _, a := range addrs {
		iv, iok := impl[a]
		mv, mok := l[a]
		switch {
		case iok && !mok:
			if iv {
				bad("recorded-not-derived", "account %s is recorded as genesis-derived but is not", a)
			}
		case !iok && mok:
			if mv {
				bad("derived-not-recorded", "account %s is genesis-derived but has no record", a)
			} else {
				bad("trace-missing", "account %s created from a recorded source has no record (summary will miss it)", a)
			}
		case iv != mv:
			if mv {
				bad("derived-not-recorded", "account %s is genesis-derived but recorded as not", a)
			} else {
				bad("recorded-not-derived", "account %s is recorded as genesis-derived but is not", a)
			}
		}
	}
	// summaries vs recomputation from bank and account state
	now := ctx.BlockTime()
	for _, genesisOnly := range []bool{false, true} {
		pools := sdk.ZeroInt()
		if genesisOnly {
			for _, avp := range k.GetAllAccountVestingPools(ctx) {
				for _, p := range avp.VestingPools {
					if p.GenesisPool {
						pools = pools.Add(p.InitiallyLocked.Sub(p.Sent).Sub(p.Withdrawn))
					}
				}
			}
		} else {
			pools = w.App.BankKeeper.GetBalance(ctx, harness.ModAddr(vtypes.ModuleName), harness.Denom).Amount
		}
		inAcc, locked := sdk.ZeroInt(), sdk.ZeroInt()
		for a, derived := range l {
			if genesisOnly && !derived {
				continue
			}
			addr, _ := sdk.AccAddressFromBech32(a)
			if cva, ok := w.App.AccountKeeper.GetAccount(ctx, addr).(*vestingtypes.ContinuousVestingAccount); ok {
				inAcc = inAcc.Add(cva.GetVestingCoins(now).AmountOf(harness.Denom))
				locked = locked.Add(w.App.BankKeeper.LockedCoins(ctx, addr).AmountOf(harness.Denom))
			}
		}
		var all, inPools, inAccounts, delegated sdk.Int
		name := "VestingsSummary"
		if genesisOnly {
			name = "GenesisVestingsSummary"
			r, err := k.GenesisVestingsSummary(sdk.WrapSDKContext(ctx), &vtypes.QueryGenesisVestingsSummaryRequest{})
			if err != nil {
				bad("summary-error", "%s failed: %v", name, err)
				continue
			}
			all, inPools, inAccounts, delegated = r.VestingAllAmount, r.VestingInPoolsAmount, r.VestingInAccountsAmount, r.DelegatedVestingAmount
		} else {
			r, err := k.VestingsSummary(sdk.WrapSDKContext(ctx), &vtypes.QueryVestingsSummaryRequest{})
			if err != nil {
				bad("summary-error", "%s failed: %v", name, err)
				continue
			}
			all, inPools, inAccounts, delegated = r.VestingAllAmount, r.VestingInPoolsAmount, r.VestingInAccountsAmount, r.DelegatedVestingAmount
		}
		if !inPools.Equal(pools) || !inAccounts.Equal(inAcc) || !all.Equal(pools.Add(inAcc)) || !delegated.Equal(inAcc.Sub(locked)) {
			bad("summary:"+name, "%s = {all %s, pools %s, accounts %s, delegated %s}; recomputed from bank/auth {all %s, pools %s, accounts %s, delegated %s}",
				name, all, inPools, inAccounts, delegated, pools.Add(inAcc), pools, inAcc, inAcc.Sub(locked))
		}
	}
	return vs
}

func runC17(rc *RunCtx) {
	scn := &Scenario{Name: "c17", Genesis: harness.BuildGenesis(c17Genesis()), T0: harness.T0, Events: c17Events(rc.Thorough()),
		NewAux: func(w *harness.World, root sdk.Context) interface{} {
			return lineage{harness.AddrS("GA"): true, harness.AddrS("NA"): false}
		},
		StepOracle: c17Step, StateOracle: c17State}
	depth, budget, maxTraces := 4, 100*time.Second, 2000
	if rc.Thorough() {
		depth, budget, maxTraces = 6, 25*time.Minute, 30000
	}
	runScenarioCheck(rc, scn, depth, budget, maxTraces, "")
}
