package props

import (
	"fmt"
	"time"

	"c4emc/explore"
	"c4emc/harness"

	vtypes "github.com/chain4energy/c4e-chain/x/cfevesting/types"
	sdk "github.com/cosmos/cosmos-sdk/types"
	vestingtypes "github.com/cosmos/cosmos-sdk/x/auth/vesting/types"
	banktypes "github.com/cosmos/cosmos-sdk/x/bank/types"
)

func init() { Register(&Check{ID: "C06", Level: "model_checking", Run: runC06}) }

func c06Cfg() vestCfg {
	return vestCfg{
		name: "c06", owners: []string{"A"}, pools: []string{"p", "q", "r"},
		poolDefs: []poolDef{
			{"A", "p", poolSpec{10, 5 * time.Second, "t5"}},
			{"A", "q", poolSpec{10, 10 * time.Second, "t5"}},
			{"A", "r", poolSpec{10, 20 * time.Second, "t0"}},
		},
		blocks:   []time.Duration{1 * time.Second, 4 * time.Second, 5 * time.Second, 6 * time.Second, 15 * time.Second},
		sendAmts: []string{"3", "rem"}, sendRestartBoth: true,
	}
}

// c06Step: C06's transition oracle on top of the pool model.
func c06Step(si *StepInfo) (interface{}, []*explore.Violation) {
	aux, vs := vestStep("C06")(si)
	bad := func(sig, f string, a ...interface{}) {
		vs = append(vs, &explore.Violation{Property: "C06", What: fmt.Sprintf(f, a...), Sig: "C06:" + sig})
	}
	if si.Ev.Block > 0 || si.Out.Class != harness.OK {
		return aux, vs
	}
	app := si.W.App
	now := si.Pre.BlockTime()
	switch msg := si.Msg.(type) {
	case *vtypes.MsgWithdrawAllAvailable:
		// pays exactly the sum of the remainders of matured pools, reported in the response
		want := sdk.ZeroInt()
		avp, _ := app.CfevestingKeeper.GetAccountVestingPools(si.Pre, msg.Owner)
		for _, p := range avp.VestingPools {
			if !now.Before(p.LockEnd) {
				want = want.Add(p.GetCurrentlyLocked())
			}
		}
		owner, _ := sdk.AccAddressFromBech32(msg.Owner)
		got := app.BankKeeper.GetBalance(si.Post, owner, harness.Denom).Amount.Sub(app.BankKeeper.GetBalance(si.Pre, owner, harness.Denom).Amount)
		if !got.Equal(want) {
			bad("withdraw-amount", "withdraw at %s paid %s, matured remainders sum to %s", now.Sub(harness.T0), got, want)
		}
		// locked pools untouched
		post, _ := app.CfevestingKeeper.GetAccountVestingPools(si.Post, msg.Owner)
		for i, p := range avp.VestingPools {
			if now.Before(p.LockEnd) && !post.VestingPools[i].GetCurrentlyLocked().Equal(p.GetCurrentlyLocked()) {
				bad("withdraw-before-lock-end", "withdraw reduced pool %s before its lock end", p.Name)
			}
		}
		// an immediately repeated withdrawal pays zero
		c2, o2 := si.W.ExecMsg(si.Post, msg, harness.ExecOpts{})
		if o2.Class == harness.OK {
			again := app.BankKeeper.GetBalance(c2, owner, harness.Denom).Amount.Sub(app.BankKeeper.GetBalance(si.Post, owner, harness.Denom).Amount)
			if !again.IsZero() {
				bad("repeated-withdraw", "repeated withdraw paid %s", again)
			}
		}
	case *vtypes.MsgSendToVestingAccount:
		// coins leave a pool only into a brand-new continuous vesting account
		to, _ := sdk.AccAddressFromBech32(msg.ToAddress)
		if app.AccountKeeper.GetAccount(si.Pre, to) != nil {
			bad("send-to-existing", "send succeeded to an existing account")
		}
		acc := app.AccountKeeper.GetAccount(si.Post, to)
		if _, ok := acc.(*vestingtypes.ContinuousVestingAccount); !ok {
			bad("send-account-type", "recipient of a pool send is %T, not a continuous vesting account", acc)
		}
		got := app.BankKeeper.GetBalance(si.Post, to, harness.Denom).Amount
		if !got.Equal(msg.Amount) {
			bad("send-amount", "recipient received %s, requested %s", got, msg.Amount)
		}
	}
	return aux, vs
}

// c06State: the pool query's withdrawable equals what a withdrawal in the same block pays per pool;
// pools before lock end report zero.
func c06State(w *harness.World, ctx sdk.Context, aux interface{}) []*explore.Violation {
	var vs []*explore.Violation
	bad := func(sig, f string, a ...interface{}) {
		vs = append(vs, &explore.Violation{Property: "C06", What: fmt.Sprintf(f, a...), Sig: "C06:" + sig})
	}
	for _, avp := range w.App.CfevestingKeeper.GetAllAccountVestingPools(ctx) {
		resp, err := w.App.CfevestingKeeper.VestingPools(sdk.WrapSDKContext(ctx), &vtypes.QueryVestingPoolsRequest{Owner: avp.Owner})
		if err != nil {
			bad("query-error", "VestingPools query failed: %v", err)
			continue
		}
		c2, out := w.ExecMsg(ctx, vtypes.NewMsgWithdrawAllAvailable(avp.Owner), harness.ExecOpts{})
		if out.Class != harness.OK {
			bad("withdraw-fails", "withdraw of an owner with pools failed: %s", out.Log)
			continue
		}
		post, _ := w.App.CfevestingKeeper.GetAccountVestingPools(c2, avp.Owner)
		// the query's answer is matched by pool name: the property does not fix the order of the list
		byName := map[string]string{}
		for _, qp := range resp.VestingPools {
			byName[qp.Name] = qp.Withdrawable
		}
		if len(resp.VestingPools) != len(avp.VestingPools) {
			bad("query-pool-count", "the query lists %d pools, the owner has %d", len(resp.VestingPools), len(avp.VestingPools))
		}
		for i, p := range avp.VestingPools {
			paid := post.VestingPools[i].Withdrawn.Sub(p.Withdrawn)
			if got, ok := byName[p.Name]; !ok || got != paid.String() {
				bad("query-withdrawable", "pool %s: query reports withdrawable %q, a withdrawal in the same block pays %s", p.Name, got, paid)
			}
			if ctx.BlockTime().Before(p.LockEnd) && !paid.IsZero() {
				bad("paid-before-lock-end", "pool %s paid %s before its lock end", p.Name, paid)
			}
			if !ctx.BlockTime().Before(p.LockEnd) && !paid.Equal(p.GetCurrentlyLocked()) {
				bad("not-all-after-lock-end", "pool %s paid %s at/after lock end, remainder was %s", p.Name, paid, p.GetCurrentlyLocked())
			}
		}
	}
	return append(vs, vestInvariant("C06")(w, ctx, aux)...)
}

func runC06(rc *RunCtx) {
	scn := vestScenario("c06", "C06", c06Cfg())
	// the owner also has a genesis pool locked until the year 2300 (beyond what fits a nanosecond
	// count): it must stay locked at every block time of the exploration
	g := vestGenesis()
	g.Vesting.AccountVestingPools = []*vtypes.AccountVestingPools{{Owner: harness.AddrS("A"), VestingPools: []*vtypes.VestingPool{
		{Name: "far", VestingType: "t0", LockStart: harness.T0, LockEnd: time.Date(2300, 1, 1, 0, 0, 0, 0, time.UTC), InitiallyLocked: sdk.NewInt(7), Withdrawn: sdk.ZeroInt(), Sent: sdk.ZeroInt(), GenesisPool: true}}}}
	g.ExtraBal = append(g.ExtraBal, banktypes.Balance{Address: harness.ModAddr(vtypes.ModuleName).String(), Coins: coins(7)})
	scn.Genesis = harness.BuildGenesis(g)
	// coins leave a pool only into a NEW account: C exists (it only ever received coins)
	for _, restart := range []bool{true, false} {
		restart := restart
		scn.Events = append(scn.Events, Ev{Name: fmt.Sprintf("send(A.p,3,->C-existing,restart=%v)", restart), Build: func(v View) (sdk.Msg, string) {
			return vtypes.NewMsgSendToVestingAccount(harness.AddrS("A"), harness.AddrS("C"), "p", sdk.NewInt(3), restart), "A"
		}})
	}
	scn.StepOracle = c06Step
	scn.StateOracle = c06State
	depth, budget, maxTraces := 5, 100*time.Second, 2000
	if rc.Thorough() {
		depth, budget, maxTraces = 7, 25*time.Minute, 0
	}
	runScenarioCheck(rc, scn, depth, budget, maxTraces, "")
}
