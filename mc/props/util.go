package props

import (
	"math/big"
	"strings"

	sigtypes "github.com/chain4energy/c4e-chain/x/cfesignature/types"
	sdk "github.com/cosmos/cosmos-sdk/types"
)

func isSigMsg(m sdk.Msg) bool {
	switch m.(type) {
	case *sigtypes.MsgStoreSignature, *sigtypes.MsgPublishReferencePayloadLink, *sigtypes.MsgCreateAccount:
		return true
	}
	return false
}

// repoFrame returns the function name of the first stack frame that lies in the repository.
func repoFrame(stack string) string {
	for _, l := range strings.Split(stack, "\n") {
		if strings.HasPrefix(l, "\t") {
			continue
		}
		if strings.Contains(l, "github.com/chain4energy/c4e-chain/") {
			if i := strings.LastIndex(l, "("); i > 0 {
				l = l[:i]
			}
			l = strings.TrimPrefix(l, "github.com/chain4energy/c4e-chain/")
			return l
		}
	}
	return ""
}

func trimStack(s string) string {
	ls := strings.Split(s, "\n")
	var out []string
	for i := 0; i < len(ls); i++ {
		if strings.Contains(ls[i], "chain4energy") || strings.Contains(ls[i], "cosmos-sdk/types") {
			out = append(out, ls[i])
		}
		if len(out) > 24 {
			break
		}
	}
	return strings.Join(out, "\n")
}

func bi(i sdk.Int) *big.Int { return i.BigInt() }

func ratOfDec(d sdk.Dec) *big.Rat {
	return new(big.Rat).SetFrac(d.BigInt(), new(big.Int).Exp(big.NewInt(10), big.NewInt(18), nil))
}
