package props

import (
	"fmt"
	"math/big"
	"sync"
	"sync/atomic"
	"time"

	"c4emc/explore"
	"c4emc/harness"

	vtypes "github.com/chain4energy/c4e-chain/x/cfevesting/types"
	sdk "github.com/cosmos/cosmos-sdk/types"
	authtypes "github.com/cosmos/cosmos-sdk/x/auth/types"
	vestingtypes "github.com/cosmos/cosmos-sdk/x/auth/vesting/types"
	banktypes "github.com/cosmos/cosmos-sdk/x/bank/types"
	govtypes "github.com/cosmos/cosmos-sdk/x/gov/types"
)

func init() { Register(&Check{ID: "C08", Level: "exploration", Run: runC08}) }

var c08Frees = []string{"0", "0.05", "0.333333333333333333", "0.5", "1"}
var c08Periods = []int64{0, 5, 10}

// the thorough tier widens every axis
var c08FreesThorough = []string{"0", "0.000000000000000001", "0.05", "0.25", "0.333333333333333333", "0.5", "0.75", "0.999999999999999999", "1"}
var c08PeriodsThorough = []int64{0, 1, 5, 10, 3600}
var c08UnitSeconds = map[string]int64{"second": 1, "minute": 60, "hour": 3600, "day": 86400}

type c08Type struct {
	Free         string
	Lockup, Vest int64
	Unit         string
}

func c08TypeName(free string, lock, vest int64, unit string) string {
	return fmt.Sprintf("f%s_l%d_v%d_%s", free, lock, vest, unit)
}

// c08Types lists the vesting types of the tier: every free share x lockup x vesting period in
// seconds, and (thorough) the periods {0,5}x{0,5} in every other unit as well
func c08Types(thorough bool) []c08Type {
	frees, periods := c08Frees, c08Periods
	if thorough {
		frees, periods = c08FreesThorough, c08PeriodsThorough
	}
	var out []c08Type
	for _, f := range frees {
		for _, l := range periods {
			for _, v := range periods {
				out = append(out, c08Type{f, l, v, "second"})
			}
		}
		// periods near the end of what a duration can hold (each valid on its own; their sum is not)
		if f == "0" || f == "0.5" {
			out = append(out, c08Type{f, 54750, 54750, "day"}, c08Type{f, 106751, 0, "day"}, c08Type{f, 0, 106751, "day"})
		}
		if thorough {
			for _, u := range []string{"minute", "hour", "day"} {
				for _, l := range []int64{0, 5} {
					for _, v := range []int64{0, 5} {
						out = append(out, c08Type{f, l, v, u})
					}
				}
			}
		}
	}
	return out
}

type c08Case struct {
	Kind              string // send | create
	Free              string
	Lockup, Vesting   int64
	Unit              string
	Remainder, Amount string
	Prior             string // none | sent1: the pool already sent 1 to another new account | sibling: the owner created another, long-locked pool first
	Restart           bool
	When              string // before | at | after (pool lock end)
	Recipient         string // absent | base | vesting | module-blocked | module-gov
	// direct creation
	Coins      string
	Start, End int64 // relative to now
}

func c08Genesis(thorough bool) harness.Genesis {
	g := harness.Genesis{Balances: map[string]sdk.Coins{
		"A": sdk.NewCoins(sdk.NewCoin(harness.Denom, mustInt("5000000000000000000000000")), sdk.NewInt64Coin(denomB, 1000)),
		"B": coins(7),
	}}
	vg := &vtypes.GenesisState{Params: vtypes.Params{Denom: harness.Denom}, VestingAccountTraces: []vtypes.VestingAccountTrace{}}
	for _, t := range c08Types(thorough) {
		vg.VestingTypes = append(vg.VestingTypes, vtypes.GenesisVestingType{Name: c08TypeName(t.Free, t.Lockup, t.Vest, t.Unit), LockupPeriod: t.Lockup, LockupPeriodUnit: t.Unit, VestingPeriod: t.Vest, VestingPeriodUnit: t.Unit, Free: sdk.MustNewDecFromStr(t.Free)})
	}
	g.Vesting = vg
	va := vestingtypes.NewContinuousVestingAccountRaw(vestingtypes.NewBaseVestingAccount(authtypes.NewBaseAccountWithAddress(harness.Addr("VA")), coins(9), harness.T0.Unix()+1000), harness.T0.Unix())
	g.Accounts = append(g.Accounts, va)
	g.ExtraBal = append(g.ExtraBal, banktypes.Balance{Address: harness.AddrS("VA"), Coins: coins(9)})
	return g
}

func c08Recipient(kind string) sdk.AccAddress {
	switch kind {
	case "base":
		return harness.Addr("B")
	case "vesting":
		return harness.Addr("VA")
	case "module-blocked":
		return harness.ModAddr(authtypes.FeeCollectorName)
	case "module-gov":
		return harness.ModAddr(govtypes.ModuleName)
	}
	return harness.Addr("R1")
}

type c08Stats struct{ cases, created, withVestingPart, rejected, unreachable int64 }

// expected locked amount of a continuous vesting schedule at t (whole seconds): exact linear, within
// the rounding of the SDK's continuous vesting account, which computes the elapsed ratio as an
// 18-decimal fixed-point number (error <= 0.5e-18, i.e. <= OV/2e18 coins) and rounds the product
func linLocked(ov *big.Int, start, end, t int64) (lo, hi *big.Int) {
	if t <= start {
		return ov, ov
	}
	if t >= end {
		return big.NewInt(0), big.NewInt(0)
	}
	vested := new(big.Rat).Mul(new(big.Rat).SetInt(ov), big.NewRat(t-start, end-start))
	l := new(big.Rat).Sub(new(big.Rat).SetInt(ov), vested)
	f := new(big.Int).Quo(l.Num(), l.Denom())
	tol := new(big.Int).Quo(ov, big.NewInt(1000000000000000000))
	tol.Add(tol, big.NewInt(1))
	return new(big.Int).Sub(f, tol), new(big.Int).Add(f, new(big.Int).Add(tol, big.NewInt(1)))
}

func c08Run(w *harness.World, base sdk.Context, cs c08Case, st *c08Stats, report func(sig, what string)) {
	app := w.App
	atomic.AddInt64(&st.cases, 1)
	ctx := harness.Branch(base)
	A := harness.Addr("A")
	to := c08Recipient(cs.Recipient)
	toExists := app.AccountKeeper.GetAccount(ctx, to) != nil
	blocked := app.BankKeeper.BlockedAddr(to)
	setTime := func(c sdk.Context, t time.Time) sdk.Context {
		h := c.BlockHeader()
		h.Time = t
		h.Height++
		return c.WithBlockHeader(h)
	}
	checkSchedule := func(post sdk.Context, ov sdk.Coins, start, end int64, now int64) {
		acc, ok := app.AccountKeeper.GetAccount(post, to).(*vestingtypes.ContinuousVestingAccount)
		if !ok {
			report("recipient-type", fmt.Sprintf("recipient is %T, not a continuous vesting account", app.AccountKeeper.GetAccount(post, to)))
			return
		}
		if !coinsEq(acc.OriginalVesting, ov) {
			report("original-vesting", fmt.Sprintf("original vesting is %s, documented %s", acc.OriginalVesting, ov))
		}
		if ov.IsZero() {
			return // an empty schedule is unobservable
		}
		atomic.AddInt64(&st.withVestingPart, 1)
		if acc.StartTime != start || acc.EndTime != end {
			report("schedule-fields", fmt.Sprintf("schedule start/end is now%+d/now%+d, documented now%+d/now%+d", acc.StartTime-now, acc.EndTime-now, start-now, end-now))
		}
		for _, t := range []int64{now, start - 1, start, start + 1, (start + end) / 2, end - 1, end, end + 1, end + 100} {
			if t < now || (start == end && t == start) {
				continue
			}
			locked := app.BankKeeper.LockedCoins(post.WithBlockTime(time.Unix(t, 0)), to)
			for _, c := range ov {
				lo, hi := linLocked(c.Amount.BigInt(), start, end, t)
				got := locked.AmountOf(c.Denom).BigInt()
				if got.Cmp(lo) < 0 || got.Cmp(hi) > 0 {
					report("schedule-behaviour", fmt.Sprintf("at now%+ds the new account has %s%s locked, the documented schedule gives %s..%s", t-now, got, c.Denom, lo, hi))
				}
			}
		}
	}

	if cs.Kind == "create" {
		now := ctx.BlockTime().Unix()
		var cc sdk.Coins
		switch cs.Coins {
		case "one":
			cc = coins(10)
		case "two":
			cc = sdk.NewCoins(sdk.NewInt64Coin(harness.Denom, 10), sdk.NewInt64Coin(denomB, 3))
		case "toomuch":
			cc = sdk.NewCoins(sdk.NewInt64Coin(denomB, 1001))
		}
		msg := vtypes.NewMsgCreateVestingAccount(A.String(), to.String(), cc, now+cs.Start, now+cs.End)
		balA := app.BankKeeper.GetAllBalances(ctx, A)
		post, out := w.ExecMsg(ctx, msg, harness.ExecOpts{})
		if out.Class == harness.Panic {
			report("panic", firstLine(out.Log))
			return
		}
		want := cs.Start <= cs.End && !toExists && !blocked && cs.Coins != "toomuch"
		if (out.Class == harness.OK) != want {
			report("create-outcome", fmt.Sprintf("direct creation %s, documented %v (%s)", out.Key(), want, firstLine(out.Log)))
			return
		}
		if out.Class != harness.OK {
			atomic.AddInt64(&st.rejected, 1)
			return
		}
		atomic.AddInt64(&st.created, 1)
		if !coinsEq(app.BankKeeper.GetAllBalances(post, to), cc) || !coinsEq(balA.Sub(app.BankKeeper.GetAllBalances(post, A)...), cc) {
			report("create-transfer", fmt.Sprintf("direct creation moved %s to the recipient and %s from the sender, expected %s", app.BankKeeper.GetAllBalances(post, to), balA.Sub(app.BankKeeper.GetAllBalances(post, A)...), cc))
		}
		checkSchedule(post, cc, now+cs.Start, now+cs.End, now)
		return
	}

	// pool send
	vt := c08TypeName(cs.Free, cs.Lockup, cs.Vesting, cs.Unit)
	const poolDur = 20
	rem := mustInt(cs.Remainder)
	if cs.Prior == "sibling" {
		// an earlier pool of the same owner that pays nothing for a long time
		c0, o0 := w.ExecMsg(ctx, vtypes.NewMsgCreateVestingPool(A.String(), "older", sdk.NewInt(5), 1000*time.Second, vt), harness.ExecOpts{})
		if o0.Class != harness.OK {
			panic("c08: sibling pool creation failed: " + o0.Log)
		}
		ctx = c0
	}
	c1, o1 := w.ExecMsg(ctx, vtypes.NewMsgCreateVestingPool(A.String(), "p", rem, poolDur*time.Second, vt), harness.ExecOpts{})
	if o1.Class != harness.OK {
		if rem.IsZero() {
			// a tree that refuses empty pools: the cases built on one do not exist there
			atomic.AddInt64(&st.unreachable, 1)
			return
		}
		panic("c08: pool creation failed: " + o1.Log)
	}
	lockEnd := c1.BlockTime().Add(poolDur * time.Second)
	prior := sdk.ZeroInt()
	if cs.Prior == "sent1" {
		var o sdk.Context
		var oo harness.Outcome
		o, oo = w.ExecMsg(c1, vtypes.NewMsgSendToVestingAccount(A.String(), harness.AddrS("R2"), "p", sdk.OneInt(), true), harness.ExecOpts{})
		if oo.Class != harness.OK {
			// an ordinary send (1 <= remainder, new recipient, pool still locked) that is refused
			report("send-outcome", fmt.Sprintf("the preparatory send of 1 out of a fresh pool holding %s was refused: %s (%s)", rem, oo.Key(), firstLine(oo.Log)))
			return
		}
		c1, prior = o, sdk.OneInt()
	}
	var now time.Time
	switch cs.When {
	case "before":
		now = lockEnd.Add(-7 * time.Second)
	case "at":
		now = lockEnd
	case "after":
		now = lockEnd.Add(3 * time.Second)
	}
	c2 := setTime(c1, now)
	var amount sdk.Int
	switch cs.Amount {
	case "rem":
		amount = rem
	case "rem+1":
		amount = rem.AddRaw(1)
	case "rem-1":
		amount = rem.SubRaw(1)
	case "rem/2":
		amount = rem.QuoRaw(2)
	default:
		amount = mustInt(cs.Amount)
	}
	matured := !now.Before(lockEnd)
	avail := rem.Sub(prior)
	if matured {
		avail = sdk.ZeroInt()
	}
	want := !amount.IsNegative() && amount.LTE(avail) && !toExists && !blocked
	balA := app.BankKeeper.GetBalance(c2, A, harness.Denom).Amount
	post, out := w.ExecMsg(c2, vtypes.NewMsgSendToVestingAccount(A.String(), to.String(), "p", amount, cs.Restart), harness.ExecOpts{})
	if out.Class == harness.Panic {
		report("panic", firstLine(out.Log))
		return
	}
	// whether a send of nothing is accepted is not part of the property: either outcome is taken
	if amount.IsZero() {
		want = out.Class == harness.OK
	}
	if (out.Class == harness.OK) != want {
		report("send-outcome", fmt.Sprintf("send %s, documented %v (%s)", out.Key(), want, firstLine(out.Log)))
		return
	}
	pools, _ := app.CfevestingKeeper.GetAccountVestingPools(post, A.String())
	p := pools.VestingPools[len(pools.VestingPools)-1]
	if out.Class != harness.OK {
		atomic.AddInt64(&st.rejected, 1)
		if !p.Sent.Equal(prior) || !p.Withdrawn.IsZero() {
			report("rejected-changed-pool", fmt.Sprintf("a rejected send left sent=%s withdrawn=%s", p.Sent, p.Withdrawn))
		}
		return
	}
	atomic.AddInt64(&st.created, 1)
	if !p.Sent.Equal(amount.Add(prior)) {
		report("sent-counter", fmt.Sprintf("pool sent counter is %s after sending %s (%s sent before)", p.Sent, amount, prior))
	}
	wantWithdrawn := sdk.ZeroInt()
	if matured {
		wantWithdrawn = rem.Sub(prior)
	}
	if !p.Withdrawn.Equal(wantWithdrawn) || !app.BankKeeper.GetBalance(post, A, harness.Denom).Amount.Sub(balA).Equal(wantWithdrawn) {
		report("implicit-withdraw", fmt.Sprintf("withdrawn=%s owner received %s, documented %s", p.Withdrawn, app.BankKeeper.GetBalance(post, A, harness.Denom).Amount.Sub(balA), wantWithdrawn))
	}
	if got := app.BankKeeper.GetBalance(post, to, harness.Denom).Amount; !got.Equal(amount) {
		report("recipient-amount", fmt.Sprintf("recipient received %s, requested %s", got, amount))
	}
	// vesting part = floor(amount * (1 - free)) in exact rationals
	free := ratOfDec(sdk.MustNewDecFromStr(cs.Free))
	vp := new(big.Rat).Mul(new(big.Rat).SetInt(amount.BigInt()), new(big.Rat).Sub(big.NewRat(1, 1), free))
	ovAmt := new(big.Int).Quo(vp.Num(), vp.Denom())
	ov := sdk.NewCoins()
	if ovAmt.Sign() > 0 {
		ov = sdk.NewCoins(sdk.NewCoin(harness.Denom, sdk.NewIntFromBigInt(ovAmt)))
	}
	var start, end int64
	if cs.Restart {
		start = now.Unix() + cs.Lockup*c08UnitSeconds[cs.Unit]
		end = start + cs.Vesting*c08UnitSeconds[cs.Unit]
	} else {
		start, end = lockEnd.Unix(), lockEnd.Unix()
	}
	checkSchedule(post, ov, start, end, now.Unix())
}

func runC08(rc *RunCtx) {
	var cases []c08Case
	rems := []string{"0", "1", "3", "10", "1000000000000000001"}
	amts := []string{"0", "1", "3", "rem", "rem+1"}
	priors := []string{"none", "sent1", "sibling"}
	if rc.Thorough() {
		rems = []string{"0", "1", "2", "3", "10", "100", "1000000000000000001", "999999999999999999999999"}
		amts = []string{"-1", "0", "1", "2", "3", "rem/2", "rem-1", "rem", "rem+1"}
		priors = []string{"none", "sent1", "sibling"}
	}
	recips := []string{"absent", "base", "vesting", "module-blocked", "module-gov"}
	resolve := func(r, a string) string {
		rem := mustInt(r)
		switch a {
		case "rem":
			return rem.String()
		case "rem+1":
			return rem.AddRaw(1).String()
		case "rem-1":
			return rem.SubRaw(1).String()
		case "rem/2":
			return rem.QuoRaw(2).String()
		}
		return a
	}
	for _, t := range c08Types(rc.Thorough()) {
		for _, r := range rems {
			seenAmt := map[string]bool{}
			for _, a := range amts {
				if v := resolve(r, a); seenAmt[v] {
					continue // the same amount under another name is not a new input
				} else {
					seenAmt[v] = true
				}
				for _, pr := range priors {
					if pr == "sent1" && mustInt(r).IsZero() {
						continue
					}
					for _, rs := range []bool{true, false} {
						for _, wh := range []string{"before", "at", "after"} {
							for _, rcp := range recips {
								if rcp != "absent" && !(t.Lockup == 5 && t.Vest == 10 && pr == "none") {
									continue // recipient state is independent of the schedule parameters
								}
								cases = append(cases, c08Case{Kind: "send", Free: t.Free, Lockup: t.Lockup, Vesting: t.Vest, Unit: t.Unit, Remainder: r, Amount: a, Prior: pr, Restart: rs, When: wh, Recipient: rcp})
							}
						}
					}
				}
			}
		}
	}
	ses := [][2]int64{{-10, 20}, {5, 25}, {0, 0}, {7, 7}, {-20, -5}, {10, 5}, {0, 1}}
	if rc.Thorough() {
		ses = append(ses, [2]int64{-1, 0}, [2]int64{-1, 1}, [2]int64{1, 2}, [2]int64{0, 3000000000}, [2]int64{3000000000, 3000000001}, [2]int64{1, 0}, [2]int64{-100, -100})
	}
	for _, cc := range []string{"one", "two", "toomuch"} {
		for _, se := range ses {
			for _, rcp := range recips {
				cases = append(cases, c08Case{Kind: "create", Coins: cc, Start: se[0], End: se[1], Recipient: rcp})
			}
		}
	}
	genesis := harness.BuildGenesis(c08Genesis(rc.Thorough()))
	worlds := make([]*harness.World, rc.Workers)
	var st c08Stats
	var mu sync.Mutex
	var samples []interface{}
	ParallelFor(rc.Workers, len(cases), func(wk, i int) {
		if worlds[wk] == nil {
			worlds[wk] = harness.NewWorld(genesis, harness.T0)
		}
		cs := cases[i]
		c08Run(worlds[wk], worlds[wk].Root(), cs, &st, func(sig, what string) {
			rc.Violate(&explore.Violation{Property: "C08", Sig: "C08:" + sig, What: fmt.Sprintf("%+v: %s", cs, what), Detail: cs})
		})
		if i%(len(cases)/6+1) == 0 {
			mu.Lock()
			samples = append(samples, cs)
			mu.Unlock()
		}
	})
	rc.Level = "exploration"
	rc.Cov = map[string]interface{}{
		"evaluations": int(st.cases), "distinct_nontrivial": int(st.withVestingPart),
		"rule":          "full product: vesting type free {0,0.05,1/3,0.5,1} x lockup {0,5,10}s x vesting {0,5,10}s (plus 150y+150y, 292y+0, 0+292y) x pool remainder {0,1,3,10,1e18+1} x amount {0,1,3,rem,rem+1} x restart x block time {before, at, after the pool's lock end} (x recipient state {absent, base, vesting, blocked module, gov module} for one schedule) x {fresh pool, pool that already sent 1 to another new account}, plus direct creation over coins x (start,end) x recipient state. The thorough tier widens every axis (free shares down to 1e-18 and up to 1-1e-18, periods {0,1,5,10,3600}, period units minute/hour/day, remainders up to 1e24-1, amounts {-1,0,1,2,3,rem/2,rem-1,rem,rem+1}, pools that already sent to another account). Each case is a distinct input; non-trivial = an account with a non-empty vesting part was created and its schedule compared behaviourally at 9 instants.",
		"vesting_types": len(c08Types(rc.Thorough())),
		"samples":       samples, "accounts_created": int(st.created), "requests_rejected": int(st.rejected), "cases_whose_setup_the_tree_refuses": int(st.unreachable), "exhaustive": true,
	}
	rc.Assume = []string{"message level (real router handlers on store branches); block times are whole seconds"}
}
