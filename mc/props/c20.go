package props

import (
	"fmt"
	"math"
	"reflect"
	"regexp"
	"strconv"
	"strings"
	"sync"
	"sync/atomic"
	"time"

	"c4emc/explore"
	"c4emc/harness"
	"c4emc/ref"

	dtypes "github.com/chain4energy/c4e-chain/x/cfedistributor/types"
	mtypes "github.com/chain4energy/c4e-chain/x/cfeminter/types"
	sigtypes "github.com/chain4energy/c4e-chain/x/cfesignature/types"
	vtypes "github.com/chain4energy/c4e-chain/x/cfevesting/types"
	"github.com/cosmos/cosmos-sdk/codec"
	codectypes "github.com/cosmos/cosmos-sdk/codec/types"
	sdk "github.com/cosmos/cosmos-sdk/types"
	authtypes "github.com/cosmos/cosmos-sdk/x/auth/types"
	vestingtypes "github.com/cosmos/cosmos-sdk/x/auth/vesting/types"
	banktypes "github.com/cosmos/cosmos-sdk/x/bank/types"
	"google.golang.org/protobuf/encoding/protowire"
)

func init() { Register(&Check{ID: "C20", Level: "exploration", Run: runC20}) }

// nv is one named value of a field alphabet. Omit: leave the field out of the wire encoding
// (how a nil Int / Dec reaches a handler on chain).
type nv struct {
	N    string
	V    interface{}
	Omit bool
}

type fieldAlpha struct {
	Name string
	Vals []nv
}

type msgSpec struct {
	Name   string
	New    func() sdk.Msg
	Fields []fieldAlpha
}

func c20Genesis() harness.Genesis {
	t0 := harness.T0.Unix()
	g := harness.Genesis{Balances: map[string]sdk.Coins{"A": sdk.NewCoins(sdk.NewCoin(harness.Denom, mustInt("40000000000000001000")), sdk.NewInt64Coin(denomB, 100)), "B": coins(5), "sigA": coins(1)}}
	v := vestingtypes.NewContinuousVestingAccountRaw(vestingtypes.NewBaseVestingAccount(authtypes.NewBaseAccountWithAddress(harness.Addr("V")), sdk.NewCoins(sdk.NewInt64Coin(harness.Denom, 30), sdk.NewInt64Coin(denomB, 8)), t0+1000), t0)
	g.Accounts = append(g.Accounts, v)
	g.ExtraBal = append(g.ExtraBal, banktypes.Balance{Address: harness.AddrS("V"), Coins: sdk.NewCoins(sdk.NewInt64Coin(harness.Denom, 33), sdk.NewInt64Coin(denomB, 8))})
	keyAcc := authtypes.NewBaseAccount(harness.Addr("K"), harness.Key("K").PubKey(), 0, 3)
	g.Accounts = append(g.Accounts, keyAcc)
	g.Minter = c13MinterCfg().Genesis(harness.T0)
	g.Distr = &dtypes.GenesisState{Params: c13DistParams()}
	g.Vesting = &vtypes.GenesisState{Params: vtypes.Params{Denom: harness.Denom}, VestingAccountTraces: []vtypes.VestingAccountTrace{},
		VestingTypes: []vtypes.GenesisVestingType{
			{Name: "t5", LockupPeriod: 5, LockupPeriodUnit: "second", VestingPeriod: 10, VestingPeriodUnit: "second", Free: sdk.NewDecWithPrec(5, 1)},
			{Name: "gone", LockupPeriod: 5, LockupPeriodUnit: "second", VestingPeriod: 10, VestingPeriodUnit: "second", Free: sdk.NewDecWithPrec(5, 1)}}}
	return g
}

func addrAlpha() []nv {
	return []nv{{"empty", "", false}, {"garbage", "not-an-address", false}, {"wrong-prefix", "cosmos1qypqxpq9qcrsszg2pvxq6rs0zqg3yyc5lzv7xu", false},
		{"unknown", harness.AddrS("nobody"), false}, {"A", harness.AddrS("A"), false}, {"module", harness.ModAddr(authtypes.FeeCollectorName).String(), false}, {"V", harness.AddrS("V"), false}}
}

func intAlpha() []nv {
	big, _ := sdk.NewIntFromString("57896044618658097711785492504343953926634992332820282019728792003956564819968")
	over64, _ := sdk.NewIntFromString("9223372036854775808") // one more than fits an int64: affordable for the rich owner
	return []nv{{"nil", sdk.Int{}, true}, {"-1", sdk.NewInt(-1), false}, {"0", sdk.ZeroInt(), false}, {"1", sdk.NewInt(1), false}, {"2^255", big, false}, {"2^63", over64, false}}
}

func decAlpha() []nv {
	return []nv{{"nil", sdk.Dec{}, true}, {"-0.1", sdk.MustNewDecFromStr("-0.1"), false}, {"0", sdk.ZeroDec(), false}, {"0.5", sdk.MustNewDecFromStr("0.5"), false}, {"1", sdk.OneDec(), false}, {"1.5", sdk.MustNewDecFromStr("1.5"), false}}
}

func coinsAlpha() []nv {
	c := func(d string, a sdk.Int) sdk.Coin { return sdk.Coin{Denom: d, Amount: a} }
	return []nv{
		{"nil", sdk.Coins(nil), false}, {"empty", sdk.Coins{}, false}, {"valid", coins(2), false}, {"valid2", sdk.NewCoins(sdk.NewInt64Coin(harness.Denom, 2), sdk.NewInt64Coin(denomB, 1)), false},
		{"zero", sdk.Coins{c(harness.Denom, sdk.ZeroInt())}, false}, {"negative", sdk.Coins{c(harness.Denom, sdk.NewInt(-5))}, false}, {"nil-amount", sdk.Coins{c(harness.Denom, sdk.Int{})}, false},
		{"duplicate", sdk.Coins{c(harness.Denom, sdk.NewInt(1)), c(harness.Denom, sdk.NewInt(1))}, false}, {"unsorted", sdk.Coins{c("zzz", sdk.NewInt(1)), c(harness.Denom, sdk.NewInt(1))}, false},
		{"invalid-denom", sdk.Coins{c("!", sdk.NewInt(1))}, false}, {"huge", sdk.Coins{c(harness.Denom, intAlpha()[4].V.(sdk.Int))}, false},
		{"2^63", sdk.Coins{c(harness.Denom, intAlpha()[5].V.(sdk.Int))}, false},
	}
}

func durAlpha() []nv {
	return []nv{{"min", time.Duration(math.MinInt64), false}, {"-1", time.Duration(-1), false}, {"0", time.Duration(0), false}, {"1s", time.Second, false}, {"max", time.Duration(math.MaxInt64), false}}
}

func i64Alpha() []nv {
	return []nv{{"min", int64(math.MinInt64), false}, {"-1", int64(-1), false}, {"0", int64(0), false}, {"now+10", harness.T0.Unix() + 10, false}, {"max", int64(math.MaxInt64), false}}
}

func strAlpha() []nv {
	return []nv{{"empty", "", false}, {"x", "x", false}, {"p", "p", false}, {"hex64", sha256hex("reference-1"), false}, {"long", strings.Repeat("y", 300), false}}
}

func jsonAlpha() []nv {
	return []nv{{"empty", "", false}, {"open", "{", false}, {"obj", "{}", false}, {"valid", `{"signature":"AAAA","algorithm":"ecdsaWithSha256","certificate":"c"}`, false}, {"non-string", `{"signature":5,"algorithm":null,"certificate":[]}`, false}, {"array", `[1,2]`, false}, {"null", `null`, false}}
}

func denomListAlpha() []nv {
	return []nv{{"nil", []string(nil), false}, {"empty-elem", []string{""}, false}, {"bang", []string{"!"}, false}, {"x", []string{"x"}, false}, {"valid", []string{harness.Denom}, false},
		{"valid+unknown", []string{harness.Denom, "nosuchdenom"}, false}, {"dup", []string{denomB, denomB}, false}, {"slash", []string{"a/b c"}, false}, {"long", []string{strings.Repeat("d", 200)}, false}}
}

func authAlpha() []nv {
	return []nv{{"gov", harness.GovAuthority(), false}, {"user", harness.AddrS("A"), false}, {"empty", "", false}, {"garbage", "xyz", false}}
}

func timeAlpha() []nv {
	return []nv{{"T0", harness.T0, false}, {"zero", time.Time{}, false}, {"far", time.Unix(253402300799, 0).UTC(), false}, {"past", harness.T0.Add(-1000 * time.Hour), false}}
}

func anyOf(m codec.ProtoMarshaler) *codectypes.Any {
	a, err := codectypes.NewAnyWithValue(m)
	if err != nil {
		panic(err)
	}
	return a
}

func mintersAlpha() []nv {
	t30 := harness.T0.Add(30 * time.Second)
	tPast := harness.T0.Add(-30 * time.Second)
	ok := c13MinterCfg().Params().Minters
	lin := func(a sdk.Int) *codectypes.Any { return anyOf(&mtypes.LinearMinting{Amount: a}) }
	exp := func(a sdk.Int, m sdk.Dec, st time.Duration) *codectypes.Any {
		return anyOf(&mtypes.ExponentialStepMinting{Amount: a, AmountMultiplier: m, StepDuration: st})
	}
	none := anyOf(&mtypes.NoMinting{})
	return []nv{
		{"nil", []*mtypes.Minter(nil), false}, {"valid", ok, false},
		{"nil-elem", []*mtypes.Minter{nil}, false},
		{"nil-config", []*mtypes.Minter{{SequenceId: 1}}, false},
		{"foreign-any", []*mtypes.Minter{{SequenceId: 1, Config: anyOf(&banktypes.MsgSend{})}}, false},
		{"any-empty-typeurl", []*mtypes.Minter{{SequenceId: 1, Config: &codectypes.Any{}}}, false},
		{"id0", []*mtypes.Minter{{SequenceId: 0, Config: none}}, false},
		{"linear-nil-amount", []*mtypes.Minter{{SequenceId: 1, EndTime: &t30, Config: lin(sdk.Int{})}, {SequenceId: 2, Config: none}}, false},
		{"linear-negative", []*mtypes.Minter{{SequenceId: 1, EndTime: &t30, Config: lin(sdk.NewInt(-1))}, {SequenceId: 2, Config: none}}, false},
		{"linear-no-end-not-last", []*mtypes.Minter{{SequenceId: 1, Config: lin(sdk.NewInt(1))}, {SequenceId: 2, Config: none}}, false},
		{"end-in-past", []*mtypes.Minter{{SequenceId: 1, EndTime: &tPast, Config: lin(sdk.NewInt(5))}, {SequenceId: 2, Config: none}}, false},
		{"exp-nil-mult", []*mtypes.Minter{{SequenceId: 1, Config: exp(sdk.NewInt(5), sdk.Dec{}, time.Second)}}, false},
		{"exp-zero-step", []*mtypes.Minter{{SequenceId: 1, Config: exp(sdk.NewInt(5), sdk.OneDec(), 0)}}, false},
		{"exp-neg-step", []*mtypes.Minter{{SequenceId: 1, Config: exp(sdk.NewInt(5), sdk.OneDec(), -time.Second)}}, false},
		{"exp-nil-amount", []*mtypes.Minter{{SequenceId: 1, Config: exp(sdk.Int{}, sdk.OneDec(), time.Second)}}, false},
		{"exp-mult-2", []*mtypes.Minter{{SequenceId: 1, Config: exp(sdk.NewInt(5), sdk.NewDec(2), time.Second)}}, false},
		{"ids-2-3", ok[1:], false},
	}
}

func subDistAlpha() []nv {
	u2 := dAcc(aU("U2"))
	mk := func(name string, src []*dtypes.Account, prim dtypes.Account, burn sdk.Dec, shares []*dtypes.DestinationShare) *dtypes.SubDistributor {
		return &dtypes.SubDistributor{Name: name, Sources: src, Destinations: dtypes.Destinations{PrimaryShare: prim, BurnShare: burn, Shares: shares}}
	}
	mainSrc := []*dtypes.Account{{Id: "i1", Type: dtypes.InternalAccount}, {Id: "", Type: dtypes.Main}}
	return []nv{
		{"nil", (*dtypes.SubDistributor)(nil), false},
		{"valid-main", mk("main", mainSrc, u2, sdk.ZeroDec(), nil), false},
		{"unknown-name", mk("nosuch", mainSrc, u2, sdk.ZeroDec(), nil), false},
		{"empty-name", mk("", mainSrc, u2, sdk.ZeroDec(), nil), false},
		{"nil-source", mk("main", []*dtypes.Account{nil}, u2, sdk.ZeroDec(), nil), false},
		{"no-sources", mk("main", nil, u2, sdk.ZeroDec(), nil), false},
		{"nil-burn", mk("main", mainSrc, u2, sdk.Dec{}, nil), false},
		{"nil-share-elem", mk("main", mainSrc, u2, sdk.ZeroDec(), []*dtypes.DestinationShare{nil}), false},
		{"nil-share-dec", mk("main", mainSrc, u2, sdk.ZeroDec(), []*dtypes.DestinationShare{{Name: "s", Destination: u2}}), false},
		{"bad-type", mk("main", []*dtypes.Account{{Id: "x", Type: "WEIRD"}}, u2, sdk.ZeroDec(), nil), false},
		{"bad-base-addr", mk("main", mainSrc, dtypes.Account{Id: "zzz", Type: dtypes.BaseAccount}, sdk.ZeroDec(), nil), false},
		{"burn-1", mk("main", mainSrc, u2, sdk.OneDec(), nil), false},
	}
}

func subDistListAlpha() []nv {
	var out []nv
	out = append(out, nv{"nil", []dtypes.SubDistributor(nil), false}, nv{"valid", c13DistParams().SubDistributors, false})
	for _, v := range subDistAlpha() {
		if sd, ok := v.V.(*dtypes.SubDistributor); ok && sd != nil {
			out = append(out, nv{"one:" + v.N, []dtypes.SubDistributor{*sd}, false})
		}
	}
	return out
}

func c20MsgSpecs() []msgSpec {
	return []msgSpec{
		{"vesting.CreateVestingPool", func() sdk.Msg { return &vtypes.MsgCreateVestingPool{} }, []fieldAlpha{{"Owner", addrAlpha()}, {"Name", strAlpha()}, {"Amount", intAlpha()}, {"Duration", durAlpha()}, {"VestingType", []nv{{"empty", "", false}, {"t5", "t5", false}, {"nosuch", "nosuch", false}}}}},
		{"vesting.WithdrawAllAvailable", func() sdk.Msg { return &vtypes.MsgWithdrawAllAvailable{} }, []fieldAlpha{{"Owner", addrAlpha()}}},
		{"vesting.SendToVestingAccount", func() sdk.Msg { return &vtypes.MsgSendToVestingAccount{} }, []fieldAlpha{{"Owner", addrAlpha()}, {"ToAddress", addrAlpha()}, {"VestingPoolName", []nv{{"empty", "", false}, {"p", "p", false}, {"typeless", "typeless", false}, {"nosuch", "nosuch", false}}}, {"Amount", intAlpha()}, {"RestartVesting", []nv{{"t", true, false}, {"f", false, false}}}}},
		{"vesting.CreateVestingAccount", func() sdk.Msg { return &vtypes.MsgCreateVestingAccount{} }, []fieldAlpha{{"FromAddress", addrAlpha()}, {"ToAddress", addrAlpha()}, {"Amount", coinsAlpha()}, {"StartTime", i64Alpha()}, {"EndTime", i64Alpha()}}},
		{"vesting.SplitVesting", func() sdk.Msg { return &vtypes.MsgSplitVesting{} }, []fieldAlpha{{"FromAddress", addrAlpha()}, {"ToAddress", addrAlpha()}, {"Amount", coinsAlpha()}}},
		{"vesting.MoveAvailableVesting", func() sdk.Msg { return &vtypes.MsgMoveAvailableVesting{} }, []fieldAlpha{{"FromAddress", addrAlpha()}, {"ToAddress", addrAlpha()}}},
		{"vesting.MoveAvailableVestingByDenoms", func() sdk.Msg { return &vtypes.MsgMoveAvailableVestingByDenoms{} }, []fieldAlpha{{"FromAddress", addrAlpha()}, {"ToAddress", addrAlpha()}, {"Denoms", denomListAlpha()}}},
		{"vesting.UpdateDenomParam", func() sdk.Msg { return &vtypes.MsgUpdateDenomParam{} }, []fieldAlpha{{"Authority", authAlpha()}, {"Denom", []nv{{"empty", "", false}, {"bang", "!", false}, {"x", "x", false}, {"valid", "newdenom", false}}}}},
		{"minter.UpdateParams", func() sdk.Msg { return &mtypes.MsgUpdateParams{} }, []fieldAlpha{{"Authority", authAlpha()}, {"MintDenom", []nv{{"empty", "", false}, {"bang", "!", false}, {"x", "x", false}, {"valid", harness.Denom, false}}}, {"StartTime", timeAlpha()}, {"Minters", mintersAlpha()}}},
		{"minter.UpdateMintersParams", func() sdk.Msg { return &mtypes.MsgUpdateMintersParams{} }, []fieldAlpha{{"Authority", authAlpha()}, {"StartTime", timeAlpha()}, {"Minters", mintersAlpha()}}},
		{"distr.UpdateParams", func() sdk.Msg { return &dtypes.MsgUpdateParams{} }, []fieldAlpha{{"Authority", authAlpha()}, {"SubDistributors", subDistListAlpha()}}},
		{"distr.UpdateSubDistributorParam", func() sdk.Msg { return &dtypes.MsgUpdateSubDistributorParam{} }, []fieldAlpha{{"Authority", authAlpha()}, {"SubDistributor", subDistAlpha()}}},
		{"distr.UpdateSubDistributorDestinationShareParam", func() sdk.Msg { return &dtypes.MsgUpdateSubDistributorDestinationShareParam{} }, []fieldAlpha{{"Authority", authAlpha()}, {"SubDistributorName", []nv{{"empty", "", false}, {"fees", "fees", false}, {"nosuch", "nosuch", false}}}, {"DestinationName", []nv{{"empty", "", false}, {"dev", "dev", false}, {"nosuch", "nosuch", false}}}, {"Share", decAlpha()}}},
		{"distr.UpdateSubDistributorBurnShareParam", func() sdk.Msg { return &dtypes.MsgUpdateSubDistributorBurnShareParam{} }, []fieldAlpha{{"Authority", authAlpha()}, {"SubDistributorName", []nv{{"empty", "", false}, {"fees", "fees", false}, {"nosuch", "nosuch", false}}}, {"BurnShare", decAlpha()}}},
		{"signature.StoreSignature", func() sdk.Msg { return &sigtypes.MsgStoreSignature{} }, []fieldAlpha{{"Creator", addrAlpha()}, {"StorageKey", strAlpha()}, {"SignatureJSON", jsonAlpha()}}},
		{"signature.PublishReferencePayloadLink", func() sdk.Msg { return &sigtypes.MsgPublishReferencePayloadLink{} }, []fieldAlpha{{"Creator", addrAlpha()}, {"Key", strAlpha()}, {"Value", strAlpha()}}},
		{"signature.CreateAccount", func() sdk.Msg { return &sigtypes.MsgCreateAccount{} }, []fieldAlpha{{"Creator", addrAlpha()}, {"AccAddressString", append(addrAlpha(), nv{"K", harness.AddrS("K"), false})},
			{"PubKeyString", []nv{{"empty", "", false}, {"open", "{", false}, {"valid", pubKeyJSON("nobody"), false}, {"valid-A", pubKeyJSON("A"), false}, {"not-a-key", `{"@type":"/cosmos.bank.v1beta1.MsgSend"}`, false}, {"unknown-type", `{"@type":"/no.such.Type"}`, false}, {"null", "null", false},
				// well-formed keys of registered types whose key bytes have the wrong length / are absent
				{"secp256k1-32-bytes", `{"@type":"/cosmos.crypto.secp256k1.PubKey","key":"AAAAAAAAAAAAAAAAAAAAAAAAAAAAAAAAAAAAAAAAAAA="}`, false},
				{"secp256k1-empty", `{"@type":"/cosmos.crypto.secp256k1.PubKey","key":""}`, false},
				{"secp256k1-no-key", `{"@type":"/cosmos.crypto.secp256k1.PubKey"}`, false},
				{"secp256k1-1-byte", `{"@type":"/cosmos.crypto.secp256k1.PubKey","key":"AA=="}`, false},
				{"ed25519-33-bytes", `{"@type":"/cosmos.crypto.ed25519.PubKey","key":"AAAAAAAAAAAAAAAAAAAAAAAAAAAAAAAAAAAAAAAAAAAA"}`, false},
				{"ed25519-32-bytes", `{"@type":"/cosmos.crypto.ed25519.PubKey","key":"AAAAAAAAAAAAAAAAAAAAAAAAAAAAAAAAAAAAAAAAAAA="}`, false},
				{"ed25519-empty", `{"@type":"/cosmos.crypto.ed25519.PubKey","key":""}`, false},
				{"secp256r1-empty", `{"@type":"/cosmos.crypto.secp256r1.PubKey"}`, false},
				{"multisig-no-keys", `{"@type":"/cosmos.crypto.multisig.LegacyAminoPubKey","threshold":1,"public_keys":[]}`, false},
				{"multisig-zero-threshold", `{"@type":"/cosmos.crypto.multisig.LegacyAminoPubKey","threshold":0,"public_keys":[` + pubKeyJSON("A") + `]}`, false},
				{"multisig-nested-bad-key", `{"@type":"/cosmos.crypto.multisig.LegacyAminoPubKey","threshold":1,"public_keys":[{"@type":"/cosmos.crypto.secp256k1.PubKey","key":"AA=="}]}`, false}}}}},
	}
}

var fieldNumRe = regexp.MustCompile(`^\w+,(\d+),`)

func fieldNumber(t reflect.Type, name string) int {
	f, ok := t.FieldByName(name)
	if !ok {
		panic("no field " + name)
	}
	m := fieldNumRe.FindStringSubmatch(f.Tag.Get("protobuf"))
	if m == nil {
		panic("no protobuf tag on " + name)
	}
	n, _ := strconv.Atoi(m[1])
	return n
}

// stripFields removes top-level fields from a wire encoding.
func stripFields(bz []byte, nums map[int]bool) []byte {
	var out []byte
	for len(bz) > 0 {
		num, typ, n := protowire.ConsumeTag(bz)
		if n < 0 {
			return bz
		}
		m := protowire.ConsumeFieldValue(num, typ, bz[n:])
		if m < 0 {
			return bz
		}
		if !nums[int(num)] {
			out = append(out, bz[:n+m]...)
		}
		bz = bz[n+m:]
	}
	return out
}

type c20Stats struct {
	inputs, undecodable, vbRejected, handlerRuns, handlerOK, panics int64
}

// roundTrip encodes the message the way a transaction carries it and decodes it again.
func roundTrip(cdc codec.Codec, msg sdk.Msg, omit map[int]bool) (out sdk.Msg, ok bool) {
	defer func() {
		if r := recover(); r != nil {
			out, ok = nil, false
		}
	}()
	pm, isPM := msg.(codec.ProtoMarshaler)
	if !isPM {
		return nil, false
	}
	bz, err := cdc.Marshal(pm)
	if err != nil {
		return nil, false
	}
	if len(omit) > 0 {
		bz = stripFields(bz, omit)
	}
	fresh := reflect.New(reflect.TypeOf(msg).Elem()).Interface().(codec.ProtoMarshaler)
	if err := cdc.Unmarshal(bz, fresh); err != nil {
		return nil, false
	}
	return fresh.(sdk.Msg), true
}

type c20State struct {
	name string
	ctx  sdk.Context
}

// c20ReachableStates (thorough tier): every state reachable by at most depth set-up operations from
// the genesis (deduplicated by state digest), so that every input meets every combination of
// present / absent / drained / matured / type-less objects the operations can produce.
func c20ReachableStates(w *harness.World, depth int) []c20State {
	type op struct {
		name string
		f    func(ctx sdk.Context) (sdk.Context, bool)
	}
	msgOp := func(name string, mk func(v View) sdk.Msg) op {
		return op{name, func(ctx sdk.Context) (sdk.Context, bool) {
			m := mk(View{App: w.App, Ctx: ctx})
			if m == nil {
				return ctx, false
			}
			c, o := w.ExecMsg(ctx, m, harness.ExecOpts{})
			return c, o.Class == harness.OK
		}}
	}
	fresh := func(v View) string { _, a := freshAddr(v); return a }
	fx := loadSigFixtures()["ecdsa-a-ref1-link1"]
	ops := []op{
		msgOp("pool(p,50)", func(View) sdk.Msg {
			return vtypes.NewMsgCreateVestingPool(harness.AddrS("A"), "p", sdk.NewInt(50), 20*time.Second, "t5")
		}),
		msgOp("pool(typeless,50)", func(View) sdk.Msg {
			return vtypes.NewMsgCreateVestingPool(harness.AddrS("A"), "typeless", sdk.NewInt(50), 20*time.Second, "gone")
		}),
		msgOp("pool(q,5e18)", func(View) sdk.Msg {
			return vtypes.NewMsgCreateVestingPool(harness.AddrS("A"), "q", mustInt("5000000000000000000"), 20*time.Second, "t5")
		}),
		msgOp("pool(r,5e18)", func(View) sdk.Msg {
			return vtypes.NewMsgCreateVestingPool(harness.AddrS("A"), "r", mustInt("5000000000000000000"), 20*time.Second, "t5")
		}),
		msgOp("send(p,7)", func(v View) sdk.Msg {
			to := fresh(v)
			if to == "" {
				return nil
			}
			return vtypes.NewMsgSendToVestingAccount(harness.AddrS("A"), to, "p", sdk.NewInt(7), true)
		}),
		msgOp("withdraw", func(View) sdk.Msg { return vtypes.NewMsgWithdrawAllAvailable(harness.AddrS("A")) }),
		{"time+30s", func(ctx sdk.Context) (sdk.Context, bool) {
			hdr := ctx.BlockHeader()
			hdr.Time = hdr.Time.Add(30 * time.Second)
			hdr.Height++
			return harness.Branch(ctx).WithBlockHeader(hdr), true
		}},
		{"remove-vesting-type", func(ctx sdk.Context) (sdk.Context, bool) {
			c := harness.Branch(ctx)
			if _, err := w.App.CfevestingKeeper.GetVestingType(c, "gone"); err != nil {
				return ctx, false
			}
			w.App.CfevestingKeeper.RemoveVestingType(c, "gone")
			return c, true
		}},
		msgOp("publish", func(View) sdk.Msg {
			return &sigtypes.MsgPublishReferencePayloadLink{Creator: harness.AddrS("sigA"), Key: sha256hex(sha256hex("reference-1")), Value: "ipfs://link-one"}
		}),
		msgOp("store-signature", func(View) sdk.Msg {
			return &sigtypes.MsgStoreSignature{Creator: harness.AddrS("sigA"), StorageKey: sha256hex(fx.Address + ":" + fx.RefID), SignatureJSON: sigJSON(fx.Signature, fx.Algorithm, fx.CertPEM)}
		}),
		msgOp("createVA", func(v View) sdk.Msg {
			to := fresh(v)
			if to == "" {
				return nil
			}
			now := v.Ctx.BlockTime().Unix()
			return vtypes.NewMsgCreateVestingAccount(harness.AddrS("A"), to, coins(4), now, now+100)
		}),
		msgOp("split(V,2)", func(v View) sdk.Msg {
			to := fresh(v)
			if to == "" {
				return nil
			}
			return vtypes.NewMsgSplitVesting(harness.AddrS("V"), to, coins(2))
		}),
	}
	type node struct {
		name string
		ctx  sdk.Context
	}
	root := w.Root()
	seen := map[string]bool{harness.Digest(w.App, root, harness.T0): true}
	level := []node{{"genesis", root}}
	out := []c20State{{"genesis", root}}
	for d := 0; d < depth; d++ {
		var next []node
		for _, n := range level {
			for _, o := range ops {
				c, ok := o.f(n.ctx)
				if !ok {
					continue
				}
				dg := harness.Digest(w.App, c, harness.T0)
				if seen[dg] {
					continue
				}
				seen[dg] = true
				nn := node{n.name + ";" + o.name, c}
				next = append(next, nn)
				out = append(out, c20State{nn.name, c})
			}
		}
		level = next
	}
	return out
}

func c20States(w *harness.World) []c20State {
	root := w.Root()
	must := func(ctx sdk.Context, msg sdk.Msg) sdk.Context {
		c, o := w.ExecMsg(ctx, msg, harness.ExecOpts{})
		if o.Class != harness.OK {
			panic("c20 setup failed: " + o.Log)
		}
		return c
	}
	pop := must(root, vtypes.NewMsgCreateVestingPool(harness.AddrS("A"), "p", sdk.NewInt(50), 20*time.Second, "t5"))
	pop = must(pop, vtypes.NewMsgCreateVestingPool(harness.AddrS("A"), "typeless", sdk.NewInt(50), 20*time.Second, "gone"))
	pop = must(pop, vtypes.NewMsgSendToVestingAccount(harness.AddrS("A"), harness.AddrS("R1"), "p", sdk.NewInt(7), true))
	pop = must(pop, &sigtypes.MsgPublishReferencePayloadLink{Creator: harness.AddrS("sigA"), Key: sha256hex(sha256hex("reference-1")), Value: "ipfs://link-one"})
	fx := loadSigFixtures()["ecdsa-a-ref1-link1"]
	pop = must(pop, &sigtypes.MsgStoreSignature{Creator: harness.AddrS("sigA"), StorageKey: sha256hex(fx.Address + ":" + fx.RefID), SignatureJSON: sigJSON(fx.Signature, fx.Algorithm, fx.CertPEM)})
	// what the v1.2.0 upgrade does to other pools of a removed vesting type
	typeless := harness.Branch(pop)
	w.App.CfevestingKeeper.RemoveVestingType(typeless, "gone")
	// amounts that fit an int64 one by one but not in total: two matured pools of 5e18 each, and a
	// vesting account whose original vesting is above 2^63
	large := must(root, vtypes.NewMsgCreateVestingPool(harness.AddrS("A"), "p", mustInt("5000000000000000000"), 20*time.Second, "t5"))
	large = must(large, vtypes.NewMsgCreateVestingPool(harness.AddrS("A"), "q", mustInt("5000000000000000000"), 20*time.Second, "t5"))
	large = must(large, vtypes.NewMsgSendToVestingAccount(harness.AddrS("A"), harness.AddrS("R1"), "p", sdk.NewInt(7), true))
	hdr := large.BlockHeader()
	hdr.Time = hdr.Time.Add(30 * time.Second)
	hdr.Height++
	large = large.WithBlockHeader(hdr)
	// a recorded vesting account that has moved all of its vesting coins away (original vesting empty)
	emptied := must(pop, vtypes.NewMsgMoveAvailableVesting(harness.AddrS("R1"), harness.AddrS("R2")))
	// the mint denomination was just switched to one nobody holds, under an open-ended exponential period
	fresh := must(root, &mtypes.MsgUpdateParams{Authority: harness.GovAuthority(), MintDenom: "ufresh", StartTime: harness.T0,
		Minters: mintCfg{Periods: []mp{{Kind: ref.ExpStep, Amount: "100", Step: 10 * time.Second, Mult: "0.5"}}}.Params().Minters})
	return []c20State{{"empty", root}, {"populated", pop}, {"pool-with-removed-vesting-type", typeless}, {"matured-pools-summing-above-int64", large}, {"mint-denom-without-supply", fresh}, {"recorded-account-emptied", emptied}}
}

func runC20(rc *RunCtx) {
	specs := c20MsgSpecs()
	genesis := harness.BuildGenesis(c20Genesis())
	var st c20Stats
	var mu sync.Mutex
	var samples []interface{}
	perMsg := map[string]int{}
	distinctPanics := map[string]bool{}
	type job struct {
		spec *msgSpec
		idx  []int
	}
	var jobs []job
	for si := range specs {
		sp := &specs[si]
		idx := make([]int, len(sp.Fields))
		for {
			jobs = append(jobs, job{sp, append([]int{}, idx...)})
			perMsg[sp.Name]++
			k := len(idx) - 1
			for k >= 0 {
				idx[k]++
				if idx[k] < len(sp.Fields[k].Vals) {
					break
				}
				idx[k] = 0
				k--
			}
			if k < 0 {
				break
			}
		}
	}
	type wctx struct {
		w      *harness.World
		states []c20State
	}
	ws := make([]*wctx, rc.Workers)
	ParallelFor(rc.Workers, len(jobs), func(wk, ji int) {
		if ws[wk] == nil {
			w := harness.NewWorld(genesis, harness.T0)
			sts := c20States(w)
			if rc.Thorough() {
				sts = append(sts, c20ReachableStates(w, 3)...)
			}
			ws[wk] = &wctx{w, sts}
		}
		w := ws[wk].w
		j := jobs[ji]
		msg := j.spec.New()
		rv := reflect.ValueOf(msg).Elem()
		omit := map[int]bool{}
		var desc []string
		for fi, f := range j.spec.Fields {
			v := f.Vals[j.idx[fi]]
			fv := rv.FieldByName(f.Name)
			if v.V == nil {
				fv.Set(reflect.Zero(fv.Type()))
			} else {
				fv.Set(reflect.ValueOf(v.V))
			}
			if v.Omit {
				omit[fieldNumber(rv.Type(), f.Name)] = true
			}
			desc = append(desc, f.Name+"="+v.N)
		}
		atomic.AddInt64(&st.inputs, 1)
		dec, ok := roundTrip(w.App.AppCodec(), msg, omit)
		if !ok {
			atomic.AddInt64(&st.undecodable, 1)
			return
		}
		label := j.spec.Name + "{" + strings.Join(desc, ",") + "}"
		for _, s := range ws[wk].states {
			_, out := w.ExecMsg(s.ctx, dec, harness.ExecOpts{})
			switch out.Class {
			case harness.Invalid:
				atomic.AddInt64(&st.vbRejected, 1)
			case harness.OK:
				atomic.AddInt64(&st.handlerRuns, 1)
				atomic.AddInt64(&st.handlerOK, 1)
			case harness.Err:
				atomic.AddInt64(&st.handlerRuns, 1)
			case harness.Panic:
				atomic.AddInt64(&st.panics, 1)
				where := "handler"
				if strings.HasPrefix(out.Log, "ValidateBasic:") {
					where = "ValidateBasic"
				}
				sig := fmt.Sprintf("C20:panic:%s:%s:%s", j.spec.Name, where, panicSig(out))
				mu.Lock()
				distinctPanics[sig] = true
				mu.Unlock()
				rc.Violate(&explore.Violation{Property: "C20", Sig: sig, What: fmt.Sprintf("%s in state %q: %s panicked: %s", label, s.name, where, firstLine(out.Log)),
					Detail: map[string]string{"input": label, "state": s.name, "panic": firstLine(out.Log), "stack": trimStack(out.Stack)}})
			}
			if out.Class != harness.Invalid && out.Class != harness.Panic {
				// basic validation passed: GetSigners must not crash either
				func() {
					defer func() {
						if r := recover(); r != nil {
							rc.Violate(&explore.Violation{Property: "C20", Sig: "C20:getsigners-panics-after-validatebasic:" + j.spec.Name, What: label + ": ValidateBasic passes but GetSigners panics: " + fmt.Sprint(r)})
						}
					}()
					dec.GetSigners()
				}()
			}
		}
		if ji%(len(jobs)/8+1) == 0 {
			mu.Lock()
			samples = append(samples, label)
			mu.Unlock()
		}
	})
	nq, qp := c20Queries(rc, ws[0].w, ws[0].states)
	rc.Level = "exploration"
	rc.Cov = map[string]interface{}{
		"evaluations": int(st.inputs)*len(ws[0].states) + nq, "states": len(ws[0].states), "distinct_nontrivial": int(st.handlerRuns),
		"rule":    "full product of the per-field boundary alphabets for every message type (17) x 6 states (empty, populated, recorded account that moved everything away, pool whose vesting type was removed, two matured pools whose remainders sum above int64, mint denomination without supply); every input goes through a protobuf marshal -> (optional field omission) -> unmarshal/UnpackInterfaces round trip, inputs that cannot be decoded are counted as unreachable; then ValidateBasic and, if it passes, the handler from the real router (msg server for cfesignature), each under recover(). Queries: every query of the four modules with nil request and the product of its field alphabets in each state. The thorough tier adds every state reachable by at most 3 of 12 set-up operations (pools incl. type-less and 5e18 ones, send, withdraw, time past the lock end, vesting-type removal, link and signature, direct creation, split), deduplicated by state digest. Non-trivial = (input, state) pairs whose handler actually ran (ValidateBasic passed).",
		"samples": samples, "inputs_per_message": perMsg, "inputs": int(st.inputs), "undecodable_inputs": int(st.undecodable), "rejected_by_validate_basic": int(st.vbRejected),
		"handler_runs": int(st.handlerRuns), "handler_successes": int(st.handlerOK), "panicking_runs": int(st.panics) + qp, "distinct_panic_sites": len(distinctPanics), "query_evaluations": nq, "exhaustive": true,
	}
	rc.Assume = []string{"GetSigners may panic on its own (SDK convention) but not after ValidateBasic passed"}
	_ = ref.PredAny
}

// c20Queries runs every query with nil and boundary requests.
func c20Queries(rc *RunCtx, w *harness.World, states []c20State) (int, int) {
	n, panics := 0, 0
	call := func(name string, st c20State, f func(ctx sdk.Context) (interface{}, error)) {
		n++
		defer func() {
			if r := recover(); r != nil {
				panics++
				rc.Violate(&explore.Violation{Property: "C20", Sig: "C20:query-panic:" + name[:strings.Index(name+"{", "{")], What: fmt.Sprintf("query %s in state %q panicked: %v", name, st.name, r)})
			}
		}()
		_, _ = f(st.ctx)
	}
	addrs := addrAlpha()
	addrs = append(addrs, nv{"K", harness.AddrS("K"), false}, nv{"R1", harness.AddrS("R1"), false})
	strs := strAlpha()
	for _, st := range states {
		st := st
		g := func(c sdk.Context) sdk.Context { return c }
		vk, mk, dk, sk := w.App.CfevestingKeeper, w.App.CfeminterKeeper, w.App.CfedistributorKeeper, w.App.CfesignatureKeeper
		wc := func(c sdk.Context) interface{ Value(interface{}) interface{} } { return sdk.WrapSDKContext(g(c)) }
		_ = wc
		call("vesting.Params{nil}", st, func(c sdk.Context) (interface{}, error) { return vk.Params(sdk.WrapSDKContext(c), nil) })
		call("vesting.Params{}", st, func(c sdk.Context) (interface{}, error) {
			return vk.Params(sdk.WrapSDKContext(c), &vtypes.QueryParamsRequest{})
		})
		call("vesting.VestingType{nil}", st, func(c sdk.Context) (interface{}, error) { return vk.VestingType(sdk.WrapSDKContext(c), nil) })
		call("vesting.VestingType{}", st, func(c sdk.Context) (interface{}, error) {
			return vk.VestingType(sdk.WrapSDKContext(c), &vtypes.QueryVestingTypeRequest{})
		})
		call("vesting.VestingPools{nil}", st, func(c sdk.Context) (interface{}, error) { return vk.VestingPools(sdk.WrapSDKContext(c), nil) })
		for _, a := range addrs {
			a := a
			call("vesting.VestingPools{"+a.N+"}", st, func(c sdk.Context) (interface{}, error) {
				return vk.VestingPools(sdk.WrapSDKContext(c), &vtypes.QueryVestingPoolsRequest{Owner: a.V.(string)})
			})
		}
		call("vesting.VestingsSummary{nil}", st, func(c sdk.Context) (interface{}, error) { return vk.VestingsSummary(sdk.WrapSDKContext(c), nil) })
		call("vesting.VestingsSummary{}", st, func(c sdk.Context) (interface{}, error) {
			return vk.VestingsSummary(sdk.WrapSDKContext(c), &vtypes.QueryVestingsSummaryRequest{})
		})
		call("vesting.GenesisVestingsSummary{nil}", st, func(c sdk.Context) (interface{}, error) { return vk.GenesisVestingsSummary(sdk.WrapSDKContext(c), nil) })
		call("vesting.GenesisVestingsSummary{}", st, func(c sdk.Context) (interface{}, error) {
			return vk.GenesisVestingsSummary(sdk.WrapSDKContext(c), &vtypes.QueryGenesisVestingsSummaryRequest{})
		})
		call("minter.Params{nil}", st, func(c sdk.Context) (interface{}, error) { return mk.Params(sdk.WrapSDKContext(c), nil) })
		call("minter.Params{}", st, func(c sdk.Context) (interface{}, error) {
			return mk.Params(sdk.WrapSDKContext(c), &mtypes.QueryParamsRequest{})
		})
		call("minter.Inflation{nil}", st, func(c sdk.Context) (interface{}, error) { return mk.Inflation(sdk.WrapSDKContext(c), nil) })
		call("minter.Inflation{}", st, func(c sdk.Context) (interface{}, error) {
			return mk.Inflation(sdk.WrapSDKContext(c), &mtypes.QueryInflationRequest{})
		})
		call("minter.State{nil}", st, func(c sdk.Context) (interface{}, error) { return mk.State(sdk.WrapSDKContext(c), nil) })
		call("minter.State{}", st, func(c sdk.Context) (interface{}, error) {
			return mk.State(sdk.WrapSDKContext(c), &mtypes.QueryStateRequest{})
		})
		call("distr.Params{nil}", st, func(c sdk.Context) (interface{}, error) { return dk.Params(sdk.WrapSDKContext(c), nil) })
		call("distr.Params{}", st, func(c sdk.Context) (interface{}, error) {
			return dk.Params(sdk.WrapSDKContext(c), &dtypes.QueryParamsRequest{})
		})
		call("distr.States{nil}", st, func(c sdk.Context) (interface{}, error) { return dk.States(sdk.WrapSDKContext(c), nil) })
		call("distr.States{}", st, func(c sdk.Context) (interface{}, error) {
			return dk.States(sdk.WrapSDKContext(c), &dtypes.QueryStatesRequest{})
		})
		call("signature.Params{nil}", st, func(c sdk.Context) (interface{}, error) { return sk.Params(sdk.WrapSDKContext(c), nil) })
		call("signature.Params{}", st, func(c sdk.Context) (interface{}, error) {
			return sk.Params(sdk.WrapSDKContext(c), &sigtypes.QueryParamsRequest{})
		})
		call("signature.CreateReferenceId{nil}", st, func(c sdk.Context) (interface{}, error) { return sk.CreateReferenceId(sdk.WrapSDKContext(c), nil) })
		call("signature.CreateStorageKey{nil}", st, func(c sdk.Context) (interface{}, error) { return sk.CreateStorageKey(sdk.WrapSDKContext(c), nil) })
		call("signature.CreateReferencePayloadLink{nil}", st, func(c sdk.Context) (interface{}, error) {
			return sk.CreateReferencePayloadLink(sdk.WrapSDKContext(c), nil)
		})
		call("signature.VerifySignature{nil}", st, func(c sdk.Context) (interface{}, error) { return sk.VerifySignature(sdk.WrapSDKContext(c), nil) })
		call("signature.GetAccountInfo{nil}", st, func(c sdk.Context) (interface{}, error) { return sk.GetAccountInfo(sdk.WrapSDKContext(c), nil) })
		call("signature.VerifyReferencePayloadLink{nil}", st, func(c sdk.Context) (interface{}, error) {
			return sk.VerifyReferencePayloadLink(sdk.WrapSDKContext(c), nil)
		})
		call("signature.GetReferencePayloadLink{nil}", st, func(c sdk.Context) (interface{}, error) {
			return sk.GetReferencePayloadLink(sdk.WrapSDKContext(c), nil)
		})
		for _, a := range addrs {
			a := a
			call("signature.CreateReferenceId{"+a.N+"}", st, func(c sdk.Context) (interface{}, error) {
				r, err := sk.CreateReferenceId(sdk.WrapSDKContext(c), &sigtypes.QueryCreateReferenceIdRequest{Creator: a.V.(string)})
				if err == nil && len(r.ReferenceId) != 64 {
					panic("reference id is not 64 hex characters")
				}
				return r, err
			})
			call("signature.GetAccountInfo{"+a.N+"}", st, func(c sdk.Context) (interface{}, error) {
				return sk.GetAccountInfo(sdk.WrapSDKContext(c), &sigtypes.QueryGetAccountInfoRequest{AccAddressString: a.V.(string)})
			})
			for _, s := range strs {
				s := s
				call("signature.CreateStorageKey{"+a.N+","+s.N+"}", st, func(c sdk.Context) (interface{}, error) {
					return sk.CreateStorageKey(sdk.WrapSDKContext(c), &sigtypes.QueryCreateStorageKeyRequest{TargetAccAddress: a.V.(string), ReferenceId: s.V.(string)})
				})
				call("signature.VerifySignature{"+a.N+","+s.N+"}", st, func(c sdk.Context) (interface{}, error) {
					return sk.VerifySignature(sdk.WrapSDKContext(c), &sigtypes.QueryVerifySignatureRequest{TargetAccAddress: a.V.(string), ReferenceId: s.V.(string)})
				})
			}
		}
		for _, s1 := range strs {
			for _, s2 := range strs {
				s1, s2 := s1, s2
				call("signature.CreateReferencePayloadLink{"+s1.N+","+s2.N+"}", st, func(c sdk.Context) (interface{}, error) {
					return sk.CreateReferencePayloadLink(sdk.WrapSDKContext(c), &sigtypes.QueryCreateReferencePayloadLinkRequest{ReferenceId: s1.V.(string), PayloadHash: s2.V.(string)})
				})
				call("signature.VerifyReferencePayloadLink{"+s1.N+","+s2.N+"}", st, func(c sdk.Context) (interface{}, error) {
					return sk.VerifyReferencePayloadLink(sdk.WrapSDKContext(c), &sigtypes.QueryVerifyReferencePayloadLinkRequest{ReferenceId: s1.V.(string), PayloadHash: s2.V.(string)})
				})
			}
			call("signature.GetReferencePayloadLink{"+s1.N+"}", st, func(c sdk.Context) (interface{}, error) {
				return sk.GetReferencePayloadLink(sdk.WrapSDKContext(c), &sigtypes.QueryGetReferencePayloadLinkRequest{ReferenceId: s1.V.(string)})
			})
			call("vesting.VestingType{"+s1.N+"}", st, func(c sdk.Context) (interface{}, error) {
				return vk.VestingType(sdk.WrapSDKContext(c), &vtypes.QueryVestingTypeRequest{})
			})
		}
	}
	return n, panics
}
