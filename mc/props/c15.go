package props

import (
	"crypto"
	"crypto/ecdsa"
	"crypto/rsa"
	"crypto/sha256"
	"crypto/x509"
	_ "embed"
	"encoding/base64"
	"encoding/hex"
	"encoding/json"
	"encoding/pem"
	"fmt"
	"sort"
	"strings"
	"sync"
	"sync/atomic"
	"time"

	"c4emc/explore"
	"c4emc/harness"

	sigtypes "github.com/chain4energy/c4e-chain/x/cfesignature/types"
	sdk "github.com/cosmos/cosmos-sdk/types"
)

func init() { Register(&Check{ID: "C15", Level: "model_checking", Run: runC15}) }

//go:embed testdata/sigfixtures.json
var sigFixturesJSON []byte

// records whose certificate was signed by its issuer with another algorithm than the record's own
// (ECDSA key certified by an RSA authority and vice versa, SHA-384 / SHA-512 certificate signatures)
//
//go:embed testdata/sigfixtures_issued.json
var sigFixturesIssuedJSON []byte

type sigFixture struct {
	Name      string `json:"name"`
	Algorithm string `json:"algorithm"`
	CertPEM   string `json:"cert_pem"`
	Address   string `json:"address"`
	RefID     string `json:"ref_id"`
	Link      string `json:"link"`
	Signature string `json:"signature"`
}

func loadSigFixtures() map[string]sigFixture {
	var fs []sigFixture
	if err := json.Unmarshal(sigFixturesJSON, &fs); err != nil {
		panic(err)
	}
	var issued []sigFixture
	if err := json.Unmarshal(sigFixturesIssuedJSON, &issued); err != nil {
		panic(err)
	}
	m := map[string]sigFixture{}
	for _, f := range append(fs, issued...) {
		m[f.Name] = f
	}
	return m
}

func sha256hex(s string) string { x := sha256.Sum256([]byte(s)); return hex.EncodeToString(x[:]) }

func sigJSON(sig, alg, cert string) string {
	bz, _ := json.Marshal(map[string]string{"signature": sig, "algorithm": alg, "certificate": cert})
	return string(bz)
}

// refsig: two maps. Links are write-once (first writer wins), signatures last writer wins.
type sigRecord struct{ Sig, Alg, Cert, Time string }

type refSig struct {
	Links map[string]string
	Sigs  map[string]sigRecord
}

func (r *refSig) clone() *refSig {
	c := &refSig{Links: map[string]string{}, Sigs: map[string]sigRecord{}}
	for k, v := range r.Links {
		c.Links[k] = v
	}
	for k, v := range r.Sigs {
		c.Sigs[k] = v
	}
	return c
}

// independentVerify checks the signature over payload with the certificate's key directly
// (not through x509.Certificate.CheckSignature, which the code under test uses).
func independentVerify(rec sigRecord, payload string) bool {
	sig, err := base64.StdEncoding.DecodeString(rec.Sig)
	if err != nil {
		return false
	}
	blk, _ := pem.Decode([]byte(rec.Cert))
	if blk == nil {
		return false
	}
	cert, err := x509.ParseCertificate(blk.Bytes)
	if err != nil {
		return false
	}
	d := sha256.Sum256([]byte(payload))
	switch rec.Alg {
	case "ecdsaWithSha256":
		pk, ok := cert.PublicKey.(*ecdsa.PublicKey)
		return ok && ecdsa.VerifyASN1(pk, d[:], sig)
	case "sha256WithRsaEncryption":
		pk, ok := cert.PublicKey.(*rsa.PublicKey)
		return ok && rsa.VerifyPKCS1v15(pk, crypto.SHA256, d[:], sig) == nil
	}
	return false
}

func extractField(js, field string) (string, bool) {
	var m map[string]interface{}
	if json.Unmarshal([]byte(js), &m) != nil {
		return "", false
	}
	s, _ := m[field].(string)
	return s, true
}

var sigAddrs = []string{"sigA", "sigB"}

func c15Refs() []string { return []string{sha256hex("reference-1"), sha256hex("reference-2")} }

func c15Events(fx map[string]sigFixture) []Ev {
	refs := c15Refs()
	// thirty years later (beyond the certificates' own validity): a stored record verifies as before
	evs := []Ev{{Name: "block+1s", Block: time.Second}, {Name: "block+30y", Block: 30 * 365 * 24 * time.Hour}}
	for ri, r := range refs {
		for _, v := range []struct{ n, v string }{{"L1", "ipfs://link-one"}, {"L2", "ipfs://link-two"}, {"empty", ""}, {"L3:", "urn:c4e:doc:"}, {"L4", "urn:c4e:doc"}} {
			r, v := r, v
			evs = append(evs, Ev{Name: fmt.Sprintf("publish(ref%d=%s)", ri+1, v.n), Build: func(View) (sdk.Msg, string) {
				return &sigtypes.MsgPublishReferencePayloadLink{Creator: harness.AddrS("sigA"), Key: sha256hex(r), Value: v.v}, "sigA"
			}})
		}
	}
	// keys are free-form strings: spellings of the same reference hash that differ only in case (or
	// carry a space) are different keys and must not reach the entry published under the plain one
	for _, kv := range []struct {
		n string
		f func(string) string
	}{{"upper", strings.ToUpper}, {"trailing-space", func(k string) string { return k + " " }}} {
		kv := kv
		evs = append(evs, Ev{Name: fmt.Sprintf("publish(ref1^%s=L2)", kv.n), Build: func(View) (sdk.Msg, string) {
			return &sigtypes.MsgPublishReferencePayloadLink{Creator: harness.AddrS("sigB"), Key: kv.f(sha256hex(refs[0])), Value: "ipfs://link-two"}, "sigB"
		}})
	}
	type skey struct {
		n, addr, ref string
	}
	a, b := harness.AddrS("sigA"), harness.AddrS("sigB")
	keys := []skey{{"SK(a,ref1)", a, refs[0]}, {"SK(a,ref2)", a, refs[1]}, {"SK(b,ref1)", b, refs[0]}}
	e1, r1, e2 := fx["ecdsa-a-ref1-link1"], fx["rsa-a-ref1-link1"], fx["ecdsa-a-ref1-link2"]
	e3, e4, e5 := fx["ecdsa-a-ref1-link3"], fx["rsa-a-ref1-link4"], fx["ecdsa-a-ref1-link5"]
	payloads := []struct{ n, js string }{
		{"ecdsa(a,ref1,L1)", sigJSON(e1.Signature, e1.Algorithm, e1.CertPEM)},
		{"rsa(a,ref1,L1)", sigJSON(r1.Signature, r1.Algorithm, r1.CertPEM)},
		{"ecdsa(a,ref1,L2)", sigJSON(e2.Signature, e2.Algorithm, e2.CertPEM)},
		{"ecdsa(a,ref1,L3:)", sigJSON(e3.Signature, e3.Algorithm, e3.CertPEM)},
		{"rsa(a,ref1,L4)", sigJSON(e4.Signature, e4.Algorithm, e4.CertPEM)},
		{"ecdsa(a,ref1,empty)", sigJSON(e5.Signature, e5.Algorithm, e5.CertPEM)},
		{"ecdsa-cert-issued-by-rsa(a,ref1,L1)", sigJSON(fx["ecdsa-issued-by-rsa"].Signature, fx["ecdsa-issued-by-rsa"].Algorithm, fx["ecdsa-issued-by-rsa"].CertPEM)},
		{"rsa-cert-issued-by-ecdsa(a,ref1,L1)", sigJSON(fx["rsa-issued-by-ecdsa"].Signature, fx["rsa-issued-by-ecdsa"].Algorithm, fx["rsa-issued-by-ecdsa"].CertPEM)},
		{"ecdsa-cert-sha384(a,ref1,L1)", sigJSON(fx["ecdsa-selfsigned-sha384"].Signature, fx["ecdsa-selfsigned-sha384"].Algorithm, fx["ecdsa-selfsigned-sha384"].CertPEM)},
		{"rsa-cert-sha512(a,ref1,L1)", sigJSON(fx["rsa-selfsigned-sha512"].Signature, fx["rsa-selfsigned-sha512"].Algorithm, fx["rsa-selfsigned-sha512"].CertPEM)},
		{"missing-field", `{"signature":"AAAA","algorithm":"ecdsaWithSha256"}`},
		{"malformed", `{"signature":`},
	}
	for ki, k := range keys {
		for _, p := range payloads {
			k, p := k, p
			if ki > 0 && strings.Contains(p.n, "-cert-") {
				continue // certificate shapes are independent of the storage key: first key only
			}
			evs = append(evs, Ev{Name: fmt.Sprintf("store(%s,%s)", k.n, p.n), Build: func(View) (sdk.Msg, string) {
				return &sigtypes.MsgStoreSignature{Creator: harness.AddrS("sigB"), StorageKey: sha256hex(k.addr + ":" + k.ref), SignatureJSON: p.js}, "sigB"
			}})
		}
	}
	return evs
}

func c15Step(si *StepInfo) (interface{}, []*explore.Violation) {
	m := si.Aux.(*refSig)
	if si.Msg == nil || si.Out.Class == harness.Invalid {
		return m, nil
	}
	var vs []*explore.Violation
	n := m.clone()
	expectOK := true
	switch msg := si.Msg.(type) {
	case *sigtypes.MsgPublishReferencePayloadLink:
		if _, exists := n.Links[msg.Key]; exists {
			expectOK = false
		} else {
			n.Links[msg.Key] = msg.Value
		}
	case *sigtypes.MsgStoreSignature:
		sig, ok1 := extractField(msg.SignatureJSON, "signature")
		alg, ok2 := extractField(msg.SignatureJSON, "algorithm")
		cert, ok3 := extractField(msg.SignatureJSON, "certificate")
		if !(ok1 && ok2 && ok3) {
			expectOK = false
		} else {
			n.Sigs[msg.StorageKey] = sigRecord{sig, alg, cert, si.Pre.BlockTime().String()}
		}
	}
	ok := si.Out.Class == harness.OK
	if si.Out.Class == harness.Panic {
		return m, vs // C20's business
	}
	if !ok {
		n = m
	}
	if _, isPub := si.Msg.(*sigtypes.MsgPublishReferencePayloadLink); isPub && ok && !expectOK {
		vs = append(vs, &explore.Violation{Property: "C15", Sig: "C15:link-overwritten", What: si.Ev.Name + ": a published payload link was overwritten by a later message"})
	}
	return n, vs
}

func c15RawLinks(w *harness.World, ctx sdk.Context) map[string]string {
	out := map[string]string{}
	st := ctx.KVStore(w.App.GetKey(sigtypes.StoreKey))
	pfx := []byte(sigtypes.PayloadLinkKey)
	it := st.Iterator(pfx, sdk.PrefixEndBytes(pfx))
	defer it.Close()
	for ; it.Valid(); it.Next() {
		out[string(it.Key()[len(pfx):])] = string(it.Value())
	}
	return out
}

func c15State(w *harness.World, ctx sdk.Context, aux interface{}) []*explore.Violation {
	m := aux.(*refSig)
	var vs []*explore.Violation
	bad := func(sig, f string, a ...interface{}) {
		vs = append(vs, &explore.Violation{Property: "C15", Sig: "C15:" + sig, What: fmt.Sprintf(f, a...)})
	}
	raw := c15RawLinks(w, ctx)
	keys := map[string]bool{}
	for k := range raw {
		keys[k] = true
	}
	for k := range m.Links {
		keys[k] = true
	}
	ks := make([]string, 0, len(keys))
	for k := range keys {
		ks = append(ks, k)
	}
	sort.Strings(ks)
	for _, k := range ks {
		rv, rok := raw[k]
		mv, mok := m.Links[k]
		if rok != mok || rv != mv {
			bad("links-differ", "stored payload link %s is %q (present=%v); first-writer-wins history says %q (present=%v)", k[:8], rv, rok, mv, mok)
		}
	}
	k := w.App.CfesignatureKeeper
	for _, al := range sigAddrs {
		addr := harness.AddrS(al)
		for _, ref := range c15Refs() {
			resp, err := func() (r *sigtypes.QueryVerifySignatureResponse, e error) {
				defer func() {
					if p := recover(); p != nil {
						e = fmt.Errorf("panic: %v", p)
					}
				}()
				return k.VerifySignature(sdk.WrapSDKContext(ctx), &sigtypes.QueryVerifySignatureRequest{ReferenceId: ref, TargetAccAddress: addr})
			}()
			rec, has := m.Sigs[sha256hex(addr+":"+ref)]
			link, hasLink := m.Links[sha256hex(ref)]
			want := has && hasLink && independentVerify(rec, sha256hex(addr+":"+ref+":"+link))
			got := err == nil && resp != nil && resp.Valid == "valid"
			if got != want {
				bad("verify-verdict", "VerifySignature(%s,%s) says valid=%v (err=%v), the stored record verifies=%v (record=%v link=%v)", al, ref[:8], got, err, want, has, hasLink)
				continue
			}
			if got {
				if resp.Signature != rec.Sig || resp.Algorithm != rec.Alg || resp.Timestamp != rec.Time {
					bad("verify-returns-altered", "VerifySignature(%s,%s) returns signature/algorithm/timestamp different from what was stored", al, ref[:8])
				}
				if resp.Certificate != rec.Cert {
					bad("verify-returns-wrong-certificate", "VerifySignature(%s,%s) returns %q... in the certificate field, the stored certificate is %q...", al, ref[:8], head(resp.Certificate, 30), head(rec.Cert, 30))
				}
			}
		}
	}
	return vs
}

func head(s string, n int) string {
	s = strings.ReplaceAll(s, "\n", " ")
	if len(s) > n {
		return s[:n]
	}
	return s
}

// c15Mutations: every single-field mutation of a valid record must make verification fail.
func c15Mutations(rc *RunCtx, fx map[string]sigFixture) (int, int) {
	type mut struct {
		name            string
		sig, alg, cert  string
		addr, ref, link string
	}
	var muts []mut
	var baseNames []string
	for _, bn := range []string{"ecdsa-a-ref1-link1", "rsa-a-ref1-link1", "ecdsa2-b-ref2-link2", "rsa-b-ref1-link2"} {
		baseNames = append(baseNames, bn)
		f := fx[bn]
		// a fixture that differs from the base in address, reference id and link
		flip := func(x string) string {
			if strings.HasSuffix(x, "1") {
				return x[:len(x)-1] + "2"
			}
			return x[:len(x)-1] + "1"
		}
		parts := strings.Split(bn, "-") // kind, addr, refN, linkN
		oa := "a"
		if parts[1] == "a" {
			oa = "b"
		}
		other, okf := fx["ecdsa-"+oa+"-"+flip(parts[2])+"-"+flip(parts[3])]
		if !okf || other.Address == f.Address || other.RefID == f.RefID || other.Link == f.Link {
			panic("c15: bad 'other' fixture for " + bn)
		}
		raw, _ := base64.StdEncoding.DecodeString(f.Signature)
		for i := range raw {
			c := append([]byte{}, raw...)
			c[i] ^= 1 << uint(i%8)
			muts = append(muts, mut{fmt.Sprintf("%s:sig-bit@%d", bn, i), base64.StdEncoding.EncodeToString(c), f.Algorithm, f.CertPEM, f.Address, f.RefID, f.Link})
		}
		muts = append(muts,
			mut{bn + ":sig-truncated", base64.StdEncoding.EncodeToString(raw[:len(raw)-1]), f.Algorithm, f.CertPEM, f.Address, f.RefID, f.Link},
			mut{bn + ":sig-not-base64", "!!" + f.Signature, f.Algorithm, f.CertPEM, f.Address, f.RefID, f.Link},
			mut{bn + ":sig-empty", "", f.Algorithm, f.CertPEM, f.Address, f.RefID, f.Link},
			mut{bn + ":sig-of-other-record", other.Signature, f.Algorithm, f.CertPEM, f.Address, f.RefID, f.Link},
			mut{bn + ":alg-unknown", f.Signature, "md5WithRsa", f.CertPEM, f.Address, f.RefID, f.Link},
			mut{bn + ":alg-empty", f.Signature, "", f.CertPEM, f.Address, f.RefID, f.Link},
			mut{bn + ":alg-dsa", f.Signature, "dsaWithSha256", f.CertPEM, f.Address, f.RefID, f.Link},
			mut{bn + ":cert-truncated", f.Signature, f.Algorithm, f.CertPEM[:len(f.CertPEM)/2], f.Address, f.RefID, f.Link},
			mut{bn + ":cert-not-pem", f.Signature, f.Algorithm, "not a certificate", f.Address, f.RefID, f.Link},
			mut{bn + ":cert-empty", f.Signature, f.Algorithm, "", f.Address, f.RefID, f.Link},
			mut{bn + ":address-swapped", f.Signature, f.Algorithm, f.CertPEM, other.Address, f.RefID, f.Link},
			mut{bn + ":ref-swapped", f.Signature, f.Algorithm, f.CertPEM, f.Address, other.RefID, f.Link},
			mut{bn + ":link-swapped", f.Signature, f.Algorithm, f.CertPEM, f.Address, f.RefID, other.Link},
			mut{bn + ":link-extended", f.Signature, f.Algorithm, f.CertPEM, f.Address, f.RefID, f.Link + "x"},
			mut{bn + ":link-plus-separator", f.Signature, f.Algorithm, f.CertPEM, f.Address, f.RefID, f.Link + ":"},
			mut{bn + ":link-emptied", f.Signature, f.Algorithm, f.CertPEM, f.Address, f.RefID, ""},
		)
		swapAlg := "sha256WithRsaEncryption"
		swapCert := fx["rsa-a-ref1-link1"].CertPEM
		if f.Algorithm == swapAlg {
			swapAlg, swapCert = "ecdsaWithSha256", fx["ecdsa-a-ref1-link1"].CertPEM
		}
		muts = append(muts,
			mut{bn + ":alg-swapped", f.Signature, swapAlg, f.CertPEM, f.Address, f.RefID, f.Link},
			mut{bn + ":cert-swapped", f.Signature, f.Algorithm, swapCert, f.Address, f.RefID, f.Link})
		if strings.HasPrefix(bn, "ecdsa-") {
			muts = append(muts, mut{bn + ":cert-other-ecdsa-key", f.Signature, f.Algorithm, fx["ecdsa2-a-ref1-link1"].CertPEM, f.Address, f.RefID, f.Link})
		}
	}
	genesis := harness.BuildGenesis(harness.Genesis{Balances: map[string]sdk.Coins{"sigA": coins(5), "sigB": coins(5)}})
	worlds := make([]*harness.World, rc.Workers)
	var rejected int64
	run := func(w *harness.World, sig, alg, cert, addr, ref, link string) (bool, string) {
		ctx := harness.Branch(w.Root())
		c1, o1 := w.ExecMsg(ctx, &sigtypes.MsgPublishReferencePayloadLink{Creator: harness.AddrS("sigA"), Key: sha256hex(ref), Value: link}, harness.ExecOpts{})
		if o1.Class != harness.OK {
			return false, "publish failed: " + o1.Log
		}
		ctx = c1
		c2, o := w.ExecMsg(ctx, &sigtypes.MsgStoreSignature{Creator: harness.AddrS("sigB"), StorageKey: sha256hex(addr + ":" + ref), SignatureJSON: sigJSON(sig, alg, cert)}, harness.ExecOpts{})
		if o.Class != harness.OK {
			return false, "store failed: " + o.Log
		}
		var resp *sigtypes.QueryVerifySignatureResponse
		var err error
		func() {
			defer func() {
				if p := recover(); p != nil {
					err = fmt.Errorf("panic: %v", p)
				}
			}()
			resp, err = w.App.CfesignatureKeeper.VerifySignature(sdk.WrapSDKContext(c2), &sigtypes.QueryVerifySignatureRequest{ReferenceId: ref, TargetAccAddress: addr})
		}()
		if err != nil {
			return false, err.Error()
		}
		return resp.Valid == "valid", ""
	}
	// the unmutated records must verify (otherwise the mutation test is vacuous)
	w0 := harness.NewWorld(genesis, harness.T0)
	for _, bn := range baseNames {
		f := fx[bn]
		if ok, why := run(w0, f.Signature, f.Algorithm, f.CertPEM, f.Address, f.RefID, f.Link); !ok {
			rc.Violate(&explore.Violation{Property: "C15", Sig: "C15:valid-record-rejected", What: fmt.Sprintf("valid record %s does not verify: %s", bn, why)})
		}
	}
	var mu sync.Mutex
	ParallelFor(rc.Workers, len(muts), func(wk, i int) {
		if worlds[wk] == nil {
			worlds[wk] = harness.NewWorld(genesis, harness.T0)
		}
		m := muts[i]
		ok, _ := run(worlds[wk], m.sig, m.alg, m.cert, m.addr, m.ref, m.link)
		if ok {
			mu.Lock()
			kind := m.name[strings.Index(m.name, ":")+1:]
			if j := strings.Index(kind, "@"); j > 0 {
				kind = kind[:j]
			}
			rc.Violate(&explore.Violation{Property: "C15", Sig: "C15:mutation-accepted:" + kind, What: "verification still succeeds after mutation " + m.name, Detail: m.name})
			mu.Unlock()
		} else {
			atomic.AddInt64(&rejected, 1)
		}
	})
	return len(muts), int(rejected)
}

func runC15(rc *RunCtx) {
	fx := loadSigFixtures()
	scn := &Scenario{Name: "c15", Genesis: harness.BuildGenesis(harness.Genesis{Balances: map[string]sdk.Coins{"sigA": coins(5), "sigB": coins(5)}}), T0: harness.T0,
		Events: c15Events(fx),
		NewAux: func(*harness.World, sdk.Context) interface{} {
			return &refSig{Links: map[string]string{}, Sigs: map[string]sigRecord{}}
		},
		StepOracle: c15Step, StateOracle: c15State}
	depth, budget, maxTraces := 4, 120*time.Second, 1500
	if rc.Thorough() {
		depth, budget, maxTraces = 6, 25*time.Minute, 20000
	}
	// in mode B the links are additionally compared after every event, with real commits in between
	sys := scnSystem{scn}
	res := explore.Run(sys, explore.Options{MaxDepth: depth, Workers: rc.Workers, Budget: budget, KeepTree: true, Progress: func(s string) { rc.Logf("%s", s) }})
	rc.ViolateAll(res.Violations)
	events := sys.Events()
	cov := CovFromResult(events, res)
	conf := Conform(scn, events, res.Tree, ConformOpts{MaxTraces: maxTraces, Workers: rc.Workers, Seed: rc.Seed, Deadline: rc.Start.Add(budget + 3*time.Minute)})
	cov["traces_validated_against_impl"] = conf.Traces - len(conf.Mismatches)
	cov["conformance_traces_total"] = conf.TotalTraces
	cov["conformance_capped"] = conf.Capped
	if len(conf.Mismatches) > 0 {
		cov["conformance_mismatches"] = conf.Mismatches[:min(5, len(conf.Mismatches))]
		rc.Logf("CONFORMANCE MISMATCH: %s", conf.Mismatches[0])
		rc.MachineryError = true
	}
	nm, nr := c15Mutations(rc, fx)
	cov["single_field_mutations"] = nm
	cov["single_field_mutations_rejected"] = nr
	cov["sig_messages_at_msg_server_seam"] = true
	rc.Cov = cov
	rc.Level = "model_checking"
	rc.Assume = []string{"cfesignature messages are driven through the exported msg server (the application does not route them)", "fixtures (keys, certificates, signatures) are committed; independent verification uses crypto/ecdsa and crypto/rsa directly"}
}
