package props

import (
	"fmt"
	"math/big"
	"sort"
	"strings"
	"sync"
	"sync/atomic"

	"c4emc/explore"
	"c4emc/harness"
	"c4emc/ref"

	cfedistributor "github.com/chain4energy/c4e-chain/x/cfedistributor"
	dkeeper "github.com/chain4energy/c4e-chain/x/cfedistributor/keeper"
	dtypes "github.com/chain4energy/c4e-chain/x/cfedistributor/types"
	mtypes "github.com/chain4energy/c4e-chain/x/cfeminter/types"
	sdk "github.com/cosmos/cosmos-sdk/types"
	authtypes "github.com/cosmos/cosmos-sdk/x/auth/types"
	vestingtypes "github.com/cosmos/cosmos-sdk/x/auth/vesting/types"
	banktypes "github.com/cosmos/cosmos-sdk/x/bank/types"
)

const denomB = "ubb"

// neutral description of an account in a distributor configuration
type dacc struct{ Type, ID string }

var (
	aMAIN  = dacc{dtypes.Main, ""}
	aMfee  = dacc{dtypes.ModuleAccount, authtypes.FeeCollectorName}
	aMgeb  = dacc{dtypes.ModuleAccount, dtypes.GreenEnergyBoosterCollector}
	aVRC   = dacc{dtypes.ModuleAccount, dtypes.ValidatorsRewardsCollector}
	aMmain = dacc{dtypes.ModuleAccount, dtypes.DistributorMainAccount}
	aI1    = dacc{dtypes.InternalAccount, "i1"}
	aI2    = dacc{dtypes.InternalAccount, "i2"}
	aIF    = dacc{dtypes.InternalAccount, authtypes.FeeCollectorName} // internal account named like a module account
)

func aU(label string) dacc { return dacc{dtypes.BaseAccount, harness.AddrS(label)} }

// aBlocked: a BASE_ACCOUNT whose address is a blocked module account - every payout to it fails.
func aBlocked() dacc {
	return dacc{dtypes.BaseAccount, harness.ModAddr(dtypes.GovernanceBoosterCollector).String()}
}

// aLocked: a BASE_ACCOUNT source whose coins are locked in a vesting account - every sweep fails.
func aLocked() dacc { return aU("LOCKED") }

func (a dacc) short() string {
	switch a.Type {
	case dtypes.Main:
		return "MAIN"
	case dtypes.ModuleAccount:
		return "M:" + a.ID
	case dtypes.InternalAccount:
		return "I:" + a.ID
	}
	if a == aBlocked() {
		return "B:BLOCKED"
	}
	for _, l := range []string{"U1", "U2", "U3", "LOCKED"} {
		if harness.AddrS(l) == a.ID {
			return "B:" + l
		}
	}
	return "B:" + a.ID
}

type dshare struct {
	Dest  dacc
	Share string
}

type dsub struct {
	Sources []dacc
	Primary dacc
	Burn    string
	Shares  []dshare
}

type dcfg []dsub

func (c dcfg) String() string {
	var parts []string
	for i, s := range c {
		var src []string
		for _, a := range s.Sources {
			src = append(src, a.short())
		}
		p := fmt.Sprintf("sd%d[%s]->%s", i+1, strings.Join(src, ","), s.Primary.short())
		for _, sh := range s.Shares {
			p += fmt.Sprintf(" +%s:%s", sh.Dest.short(), sh.Share)
		}
		if s.Burn != "0" && s.Burn != "" {
			p += " burn:" + s.Burn
		}
		parts = append(parts, p)
	}
	return strings.Join(parts, " | ")
}

func (c dcfg) Params() dtypes.Params {
	var subs []dtypes.SubDistributor
	for i, s := range c {
		sd := dtypes.SubDistributor{Name: fmt.Sprintf("sd%d", i+1)}
		for _, a := range s.Sources {
			sd.Sources = append(sd.Sources, &dtypes.Account{Id: a.ID, Type: a.Type})
		}
		b := s.Burn
		if b == "" {
			b = "0"
		}
		sd.Destinations = dtypes.Destinations{PrimaryShare: dtypes.Account{Id: s.Primary.ID, Type: s.Primary.Type}, BurnShare: sdk.MustNewDecFromStr(b)}
		for j, sh := range s.Shares {
			sd.Destinations.Shares = append(sd.Destinations.Shares, &dtypes.DestinationShare{Name: fmt.Sprintf("sd%d_s%d", i+1, j+1), Share: sdk.MustNewDecFromStr(sh.Share), Destination: dtypes.Account{Id: sh.Dest.ID, Type: sh.Dest.Type}})
		}
		subs = append(subs, sd)
	}
	return dtypes.Params{SubDistributors: subs}
}

func (a dacc) ref() ref.DAccount { return ref.DAccount{Type: a.Type, ID: a.ID} }

func (c dcfg) Model() *ref.DistModel {
	var subs []ref.DSub
	for i, s := range c {
		d := ref.DSub{Name: fmt.Sprintf("sd%d", i+1), Primary: s.Primary.ref()}
		for _, a := range s.Sources {
			d.Sources = append(d.Sources, a.ref())
		}
		b := s.Burn
		if b == "" {
			b = "0"
		}
		d.Burn = sdk.MustNewDecFromStr(b).BigInt()
		for j, sh := range s.Shares {
			d.Shares = append(d.Shares, ref.DShare{Name: fmt.Sprintf("sd%d_s%d", i+1, j+1), Dest: sh.Dest.ref(), Share: sdk.MustNewDecFromStr(sh.Share).BigInt()})
		}
		subs = append(subs, d)
	}
	m := ref.NewDistModel(subs)
	m.Alias[aMmain.ref().Key()] = ref.AccMain
	m.PayFails[aBlocked().ref().Key()] = true
	m.SweepFails[aLocked().ref().Key()] = true
	return m
}

func (c dcfg) hasFailing() bool {
	for _, s := range c {
		for _, a := range s.Sources {
			if a == aLocked() {
				return true
			}
		}
		if s.Primary == aBlocked() {
			return true
		}
		for _, sh := range s.Shares {
			if sh.Dest == aBlocked() {
				return true
			}
		}
	}
	return false
}

// accounts lists every bank-backed account the configuration mentions (not MAIN, not internal).
func (c dcfg) bankAccounts() []dacc {
	seen := map[dacc]bool{}
	var out []dacc
	add := func(a dacc) {
		if a.Type == dtypes.Main || a.Type == dtypes.InternalAccount || seen[a] {
			return
		}
		seen[a] = true
		out = append(out, a)
	}
	for _, s := range c {
		for _, a := range s.Sources {
			add(a)
		}
		add(s.Primary)
		for _, sh := range s.Shares {
			add(sh.Dest)
		}
	}
	return out
}

func (c dcfg) sources() []dacc {
	seen := map[dacc]bool{}
	var out []dacc
	for _, s := range c {
		for _, a := range s.Sources {
			if a.Type == dtypes.InternalAccount || seen[a] {
				continue
			}
			seen[a] = true
			out = append(out, a)
		}
	}
	return out
}

func bankAddr(a dacc) sdk.AccAddress {
	switch a.Type {
	case dtypes.Main:
		return harness.ModAddr(dtypes.DistributorMainAccount)
	case dtypes.ModuleAccount:
		return harness.ModAddr(a.ID)
	}
	ad, err := sdk.AccAddressFromBech32(a.ID)
	if err != nil {
		panic(err)
	}
	return ad
}

// modelBankKey maps an account to the model's bank key; the module-typed alias of the main
// account is the same bank account as MAIN.
func modelBankKey(a dacc) string {
	if a.Type == dtypes.ModuleAccount && a.ID == dtypes.DistributorMainAccount {
		return ref.AccMain
	}
	return a.ref().Key()
}

// inflow patterns: per block every non-internal source receives pattern[j] (j = index of the source)
type inflowPat struct {
	Name string
	Per  []sdk.Coins
}

func cz(a, b int64) sdk.Coins {
	c := sdk.NewCoins()
	if a > 0 {
		c = c.Add(sdk.NewInt64Coin(harness.Denom, a))
	}
	if b > 0 {
		c = c.Add(sdk.NewInt64Coin(denomB, b))
	}
	return c
}

var (
	patNone  = inflowPat{"none", []sdk.Coins{cz(0, 0), cz(0, 0), cz(0, 0), cz(0, 0)}}
	patSeven = inflowPat{"7/10/13", []sdk.Coins{cz(7, 0), cz(10, 0), cz(13, 0), cz(1, 0)}}
	patMulti = inflowPat{"1000a+3b/101a/5b", []sdk.Coins{cz(1000, 3), cz(101, 0), cz(0, 5), cz(1, 1)}}
	// only the first source receives anything: the sub-distributors fed by the others are idle in that block
	patFirstOnly = inflowPat{"9/none/none", []sdk.Coins{cz(9, 0), cz(0, 0), cz(0, 0), cz(0, 0)}}
	patOne       = inflowPat{"1/1/1", []sdk.Coins{cz(1, 0), cz(1, 0), cz(1, 0), cz(1, 0)}}
)

func applyInflow(w *harness.World, ctx sdk.Context, m *ref.DistModel, srcs []dacc, pat inflowPat) {
	for j, a := range srcs {
		c := pat.Per[j%len(pat.Per)]
		if c.IsZero() {
			continue
		}
		if err := w.App.BankKeeper.MintCoins(ctx, mtypes.ModuleName, c); err != nil {
			panic(err)
		}
		var err error
		switch a.Type {
		case dtypes.Main:
			err = w.App.BankKeeper.SendCoinsFromModuleToModule(ctx, mtypes.ModuleName, dtypes.DistributorMainAccount, c)
		case dtypes.ModuleAccount:
			err = w.App.BankKeeper.SendCoinsFromModuleToModule(ctx, mtypes.ModuleName, a.ID, c)
		default:
			err = w.App.BankKeeper.SendCoins(ctx, harness.ModAddr(mtypes.ModuleName), bankAddr(a), c)
		}
		if err != nil {
			panic(err)
		}
		if m != nil {
			am := ref.Amt{}
			for _, x := range c {
				am[x.Denom] = x.Amount.BigInt()
			}
			m.Bal[modelBankKey(a)] = addAmt(m.Bal[modelBankKey(a)], am)
		}
	}
}

func addAmt(a, b ref.Amt) ref.Amt {
	if a == nil {
		a = ref.Amt{}
	}
	a.Add(b)
	return a
}

// ---- oracles ---------------------------------------------------------------------------------

type distViol func(sig, what string)

// c03Oracle is the statement of C03 evaluated on the real stores after a block.
func c03Oracle(w *harness.World, ctx sdk.Context, k dkeeper.Keeper, report distViol) {
	states := k.GetAllStates(ctx)
	sum := sdk.NewDecCoins()
	for _, s := range states {
		for _, r := range s.Remains {
			if r.IsNegative() {
				report("negative-remains", fmt.Sprintf("state %s has negative remains %s", s.GetStateKey(), r))
			}
		}
		sum = sum.Add(s.Remains...)
	}
	ints, frac := sum.TruncateDecimal()
	if !frac.IsZero() {
		report("sum-not-integer", fmt.Sprintf("recorded remains sum to a non-integer amount %s", sum))
	}
	mainBal := w.App.BankKeeper.GetAllBalances(ctx, harness.ModAddr(dtypes.DistributorMainAccount))
	if !coinsEq(ints, mainBal) {
		report("books-vs-balance", fmt.Sprintf("recorded remains sum to %s but the main account holds %s", sum, mainBal))
	}
	// no coin may vanish: the supply still equals the sum of all balances
	sumBal := sdk.NewCoins()
	for _, c := range balancesMap(w, ctx) {
		sumBal = sumBal.Add(c...)
	}
	for d, sup := range supplyMap(w, ctx) {
		if !sumBal.AmountOf(d).Equal(sup) {
			report("coins-vanished", fmt.Sprintf("supply of %s is %s but all balances add up to %s", d, sup, sumBal.AmountOf(d)))
		}
	}
	if msg, broken := dkeeper.NonNegativeCoinStateInvariant(k)(ctx); broken {
		report("registered-invariant-nonnegative", msg)
	}
	if msg, broken := dkeeper.StateSumBalanceCheckInvariant(k)(ctx); broken {
		report("registered-invariant-sum", msg)
	}
}

func decToFP(d sdk.Dec) *big.Int { return d.BigInt() }

func coinsEq(a, b sdk.Coins) bool {
	if len(a) != len(b) {
		return false
	}
	for _, c := range a {
		if !b.AmountOf(c.Denom).Equal(c.Amount) {
			return false
		}
	}
	return true
}

// c04Oracle compares the implementation with the reference model after a block.
func c04Oracle(w *harness.World, ctx sdk.Context, k dkeeper.Keeper, cfg dcfg, m *ref.DistModel, failures bool, report distViol) {
	impl := map[string]ref.Amt{}
	for _, s := range k.GetAllStates(ctx) {
		key := ref.BurnKey
		if !s.Burn {
			key = s.Account.Type + "-" + s.Account.Id
		}
		a := ref.Amt{}
		for _, r := range s.Remains {
			a[r.Denom] = decToFP(r.Amount)
		}
		impl[key] = addAmt(impl[key], a)
	}
	keys := map[string]bool{}
	for k2 := range impl {
		keys[k2] = true
	}
	for k2 := range m.Pending {
		keys[k2] = true
	}
	ks := make([]string, 0, len(keys))
	for k2 := range keys {
		ks = append(ks, k2)
	}
	sort.Strings(ks)
	for _, key := range ks {
		for _, d := range []string{harness.Denom, denomB} {
			iv, mv := big.NewInt(0), big.NewInt(0)
			if impl[key] != nil && impl[key][d] != nil {
				iv = impl[key][d]
			}
			if m.Pending[key] != nil && m.Pending[key][d] != nil {
				mv = m.Pending[key][d]
			}
			if iv.Cmp(mv) != 0 {
				report("remains:"+keyKind(key), fmt.Sprintf("recorded leftover of %s is %s%s, documented flow gives %s%s", key, fpStr(iv), d, fpStr(mv), d))
			}
		}
	}
	// balances
	accs := append([]dacc{aMAIN}, cfg.bankAccounts()...)
	for _, a := range accs {
		got := w.App.BankKeeper.GetAllBalances(ctx, bankAddr(a))
		want := m.Bal[modelBankKey(a)]
		for _, d := range []string{harness.Denom, denomB} {
			wv := big.NewInt(0)
			if want != nil && want[d] != nil {
				wv = want[d]
			}
			if got.AmountOf(d).BigInt().Cmp(wv) != 0 {
				report("balance:"+a.Type, fmt.Sprintf("%s holds %s%s, documented flow gives %s%s", a.short(), got.AmountOf(d), d, wv, d))
			}
		}
	}
	// drift clause in exact rationals: paid + pending == entitlement (up to fixed-point error), pending < 1
	tol := new(big.Rat).SetFrac(big.NewInt(int64(m.Ops+1)), ref.One18)
	for key, ent := range m.Entitled {
		if strings.HasPrefix(key, ref.AccInternal) || key == ref.AccMain {
			continue
		}
		for d, e := range ent {
			pend := big.NewInt(0)
			if impl[key] != nil && impl[key][d] != nil {
				pend = impl[key][d]
			}
			if !failures && pend.Cmp(ref.One18) >= 0 {
				report("leftover-ge-one", fmt.Sprintf("%s keeps a leftover of %s%s although no transfer failed", key, fpStr(pend), d))
			}
			_ = e
			_ = tol
		}
	}
}

func keyKind(k string) string {
	if i := strings.Index(k, "-"); i > 0 {
		return k[:i]
	}
	return k
}

func fpStr(v *big.Int) string {
	return new(big.Rat).SetFrac(v, ref.One18).FloatString(18)
}

// ---- configuration alphabets -----------------------------------------------------------------

type distAlphabet struct {
	sources [][]dacc
	primary []dacc
	shares  [][]dshare
	burns   []string
}

func distAlpha(thorough bool) distAlphabet {
	u1, u2 := aU("U1"), aU("U2")
	a := distAlphabet{}
	a.sources = [][]dacc{{aMAIN}, {aMfee}, {u1}, {aI1}, {aIF}, {aMfee, aMAIN}, {aMAIN, aMfee}, {aMfee, u1}, {aI1, aMAIN}, {aMAIN, aI1}, {aIF, aMfee}, {aMgeb, aI1}}
	a.primary = []dacc{aVRC, u2, aI1, aIF, aMAIN, aMmain, aMfee}
	if thorough {
		a.sources = append(a.sources, []dacc{aLocked(), aMAIN}, []dacc{aMAIN, aLocked()})
		a.primary = append(a.primary, aBlocked())
	}
	a.shares = [][]dshare{nil}
	oneDest := []dacc{aVRC, u2, aI1, aIF, aMAIN, aMfee, aMmain}
	if thorough {
		oneDest = append(oneDest, aBlocked())
	}
	for _, d := range oneDest {
		// 0.3, not 0.5: with one half the share and the remainder coincide and hide mix-ups of the two
		a.shares = append(a.shares, []dshare{{d, "0.3"}})
		if thorough {
			a.shares = append(a.shares, []dshare{{d, "0.5"}})
		}
	}
	// a share switched off (0) listed before one that is not
	a.shares = append(a.shares, []dshare{{u2, "0"}, {aVRC, "0.3"}})
	if thorough {
		a.shares = append(a.shares, []dshare{{aMAIN, "0"}, {u2, "0.333333333333333333"}})
	}
	a.burns = []string{"0", "0.5"}
	if thorough {
		a.burns = []string{"0", "0.5", "0.01"}
		// (five destinations here gave 2.2 million accepted configurations, more than the tier can
		// explore completely; three destinations plus the quick tier's internal-account pair give ~0.9 million)
		a.shares = append(a.shares, []dshare{{aVRC, "0.333333333333333333"}, {aI1, "0.05"}})
		twoDest := []dacc{aVRC, u2, aMAIN}
		for _, d1 := range twoDest {
			for _, d2 := range twoDest {
				if d1 != d2 {
					a.shares = append(a.shares, []dshare{{d1, "0.333333333333333333"}, {d2, "0.05"}})
				}
			}
		}
	} else {
		a.shares = append(a.shares, []dshare{{aVRC, "0.333333333333333333"}, {aI1, "0.05"}},
			[]dshare{{aMAIN, "0.333333333333333333"}, {u2, "0.05"}}, []dshare{{u2, "0.333333333333333333"}, {aMAIN, "0.05"}})
	}
	return a
}

// distFailingAlpha: a small alphabet around naturally failing transfers (a source whose coins are
// locked in a vesting account, a destination that is a blocked module address), enumerated completely
// in both tiers.
func distFailingAlpha() distAlphabet {
	u2 := aU("U2")
	return distAlphabet{
		sources: [][]dacc{{aMAIN}, {aLocked(), aMAIN}, {aMAIN, aLocked()}, {aMfee, aMAIN}, {aLocked()}},
		primary: []dacc{aVRC, u2, aBlocked(), aI1},
		shares:  [][]dshare{nil, {{u2, "0.5"}}, {{aBlocked(), "0.5"}}, {{aBlocked(), "0.333333333333333333"}, {aVRC, "0.05"}}},
		burns:   []string{"0", "0.5"},
	}
}

func (a distAlphabet) subs() []dsub {
	var out []dsub
	for _, s := range a.sources {
		for _, p := range a.primary {
			for _, sh := range a.shares {
				for _, b := range a.burns {
					out = append(out, dsub{Sources: s, Primary: p, Shares: sh, Burn: b})
				}
			}
		}
	}
	return out
}

// chain templates with three sub-distributors: source -> internal -> internal -> sinks, and fan-in.
func distChains() []dcfg {
	u1, u2 := aU("U1"), aU("U2")
	var out []dcfg
	for _, src := range [][]dacc{{aMAIN}, {aMfee, aMAIN}, {u1, aMAIN}} {
		for _, sh1 := range []string{"0.5", "0.333333333333333333"} {
			for _, b := range []string{"0", "0.01"} {
				for _, sink := range []dacc{aVRC, u2} {
					out = append(out, dcfg{
						{Sources: src, Primary: aI1, Shares: []dshare{{aI2, sh1}}, Burn: b},
						{Sources: []dacc{aI1}, Primary: aI2, Shares: []dshare{{sink, "0.05"}}, Burn: "0"},
						{Sources: []dacc{aI2}, Primary: sink, Shares: []dshare{{aMgeb, sh1}}, Burn: b},
					})
					// fan-in: two sources feed the same internal account, which is split at the end
					out = append(out, dcfg{
						{Sources: []dacc{aMfee}, Primary: aI1, Shares: []dshare{{sink, sh1}}, Burn: b},
						{Sources: src[len(src)-1:], Primary: aI1, Burn: "0"},
						{Sources: []dacc{aI1}, Primary: aVRC, Shares: []dshare{{u2, sh1}, {aMgeb, "0.05"}}, Burn: b},
					})
				}
			}
		}
	}
	// an internal account filled by an early sub-distributor and consumed only after a later
	// sub-distributor that also draws from MAIN: what is booked on the internal account must not be
	// taken for fresh MAIN inflow in between
	for _, sh := range []string{"0.5", "0.333333333333333333"} {
		for _, b := range []string{"0", "0.01"} {
			for _, mid := range []dacc{aMAIN, aI2} {
				out = append(out, dcfg{
					{Sources: []dacc{aMAIN}, Primary: aI1, Shares: []dshare{{u2, sh}}, Burn: b},
					{Sources: []dacc{aMfee}, Primary: mid, Shares: []dshare{{aMgeb, "0.05"}}, Burn: "0"},
					{Sources: []dacc{mid}, Primary: aVRC, Shares: []dshare{{u2, sh}}, Burn: b},
					{Sources: []dacc{aI1}, Primary: aMgeb, Shares: []dshare{{u1, "0.05"}}, Burn: "0"},
				})
			}
		}
	}
	return out
}

// distGenesis: two users and a vesting account whose whole balance is locked for the whole run.
func distGenesis() harness.Genesis {
	t0 := harness.T0.Unix()
	g := harness.Genesis{Balances: map[string]sdk.Coins{"U1": coins(0), "U2": coins(0)}}
	locked := vestingtypes.NewContinuousVestingAccountRaw(vestingtypes.NewBaseVestingAccount(authtypes.NewBaseAccountWithAddress(harness.Addr("LOCKED")), coins(50), t0+10000000), t0+1000000)
	g.Accounts = append(g.Accounts, locked)
	g.ExtraBal = append(g.ExtraBal, banktypes.Balance{Address: harness.AddrS("LOCKED"), Coins: coins(50)})
	return g
}

type distStats struct {
	candidates, accepted, blocks, withRemainder, multiSource int64
}

// enumDistConfigs enumerates the complete 2-sub-distributor product (plus all 1-sub configurations
// and the chain templates), filtered by the real validation.
// distEventsAlpha: the configuration alphabet of C18's quick tier (events only need every kind of
// destination and share arithmetic once; the full C03 space is used in the thorough tier).
func distEventsAlpha() distAlphabet {
	u2 := aU("U2")
	return distAlphabet{
		sources: [][]dacc{{aMAIN}, {aMfee}, {aI1}, {aMfee, aMAIN}, {aI1, aMAIN}},
		primary: []dacc{aVRC, u2, aI1, aMAIN},
		shares: [][]dshare{nil, {{aMAIN, "0.3"}}, {{u2, "0.3"}}, {{aI1, "0.3"}}, {{aMAIN, "0.333333333333333333"}, {u2, "0.05"}}, {{u2, "0.333333333333333333"}, {aMAIN, "0.05"}},
			{{aI1, "0.333333333333333333"}, {aVRC, "0.05"}}},
		burns: []string{"0", "0.5", "0.01"},
	}
}

func enumDistConfigs(thorough bool, workers int, st *distStats) []dcfg {
	return enumDistConfigsOver(distAlpha(thorough), workers, st)
}

func enumDistConfigsOver(alpha distAlphabet, workers int, st *distStats) []dcfg {
	out := enumDistAlphabet(alpha, workers, st)
	seen := map[string]bool{}
	for _, c := range out {
		seen[c.String()] = true
	}
	for _, c := range enumDistAlphabet(distFailingAlpha(), workers, st) {
		if !seen[c.String()] {
			out = append(out, c)
		}
	}
	for _, c := range distChains() {
		atomic.AddInt64(&st.candidates, 1)
		if c.Params().Validate() == nil {
			out = append(out, c)
		}
	}
	sort.Slice(out, func(i, j int) bool { return out[i].String() < out[j].String() })
	st.accepted = int64(len(out))
	return out
}

func enumDistAlphabet(alpha distAlphabet, workers int, st *distStats) []dcfg {
	subs := alpha.subs()
	var out []dcfg
	var mu sync.Mutex
	// each sub-distributor is built (and validated on its own) once per position; the pair loop
	// only runs the real cross-sub-distributor validation.
	first := make([]*dtypes.SubDistributor, len(subs))
	second := make([]*dtypes.SubDistributor, len(subs))
	hasMain := make([]bool, len(subs))
	for i, s := range subs {
		p := dcfg{s, s}.Params()
		if p.SubDistributors[0].Validate() == nil {
			first[i] = &p.SubDistributors[0]
			second[i] = &p.SubDistributors[1]
		}
		hasMain[i] = !quickReject(dcfg{s})
		c := dcfg{s}
		atomic.AddInt64(&st.candidates, 1)
		if c.Params().Validate() == nil {
			out = append(out, c)
		}
	}
	ParallelFor(workers, len(subs), func(_ int, i int) {
		var local []dcfg
		if first[i] != nil {
			for j := range subs {
				if second[j] == nil || !(hasMain[i] || hasMain[j]) {
					continue
				}
				if dtypes.ValidateSubDistributors([]dtypes.SubDistributor{*first[i], *second[j]}) == nil {
					c := dcfg{subs[i], subs[j]}
					local = append(local, c)
				}
			}
		}
		atomic.AddInt64(&st.candidates, int64(len(subs)))
		mu.Lock()
		out = append(out, local...)
		mu.Unlock()
	})
	return out
}

// quickReject mirrors nothing of the validation logic except one necessary condition that is
// cheap to test (some sub-distributor must have MAIN as a source); everything else is decided by
// the real Params.Validate.
func quickReject(c dcfg) bool {
	for _, s := range c {
		for _, a := range s.Sources {
			if a.Type == dtypes.Main {
				return false
			}
		}
	}
	return true
}

// runDist explores every configuration with every inflow history (tree of patterns, depth blocks).
func runDist(rc *RunCtx, prop string) {
	var st distStats
	var cfgs []dcfg
	if prop == "C18" && !rc.Thorough() {
		cfgs = enumDistConfigsOver(distEventsAlpha(), rc.Workers, &st)
	} else {
		cfgs = enumDistConfigs(rc.Thorough(), rc.Workers, &st)
	}
	rc.Logf("configurations: %d candidates, %d accepted by validation", st.candidates, st.accepted)
	pats := []inflowPat{patSeven, patMulti, patNone, patFirstOnly}
	depth := 2
	if rc.Thorough() {
		pats = []inflowPat{patSeven, patMulti, patNone, patFirstOnly, patOne}
		depth = 3
	}
	// thorough tier: the wide alphabet is explored completely with histories of two blocks; the
	// configurations that also belong to the quick alphabet get histories of three blocks (a complete
	// cover of a stated space instead of an arbitrary fraction of a larger one)
	deep := map[string]bool{}
	if rc.Thorough() {
		var st2 distStats
		for _, c := range enumDistConfigs(false, rc.Workers, &st2) {
			deep[c.String()] = true
		}
	}
	maxDepth := depth
	var explored, exploredDeep int64
	genesis := harness.BuildGenesis(distGenesis())
	worlds := make([]*harness.World, rc.Workers)
	var mu sync.Mutex
	var samples []interface{}
	ParallelFor(rc.Workers, len(cfgs), func(wk, ci int) {
		if worlds[wk] == nil {
			worlds[wk] = harness.NewWorld(genesis, harness.T0)
		}
		w := worlds[wk]
		cfg := cfgs[ci]
		depth := maxDepth
		if rc.Thorough() && !deep[cfg.String()] {
			depth = maxDepth - 1
		}
		defer func() {
			atomic.AddInt64(&explored, 1)
			if depth == maxDepth {
				atomic.AddInt64(&exploredDeep, 1)
			}
		}()
		k := w.App.CfedistributorKeeper
		base := harness.Branch(w.Root())
		if err := k.SetParams(base, cfg.Params()); err != nil {
			return
		}
		srcs := cfg.sources()
		if len(srcs) > 1 {
			atomic.AddInt64(&st.multiSource, 1)
		}
		var hist []string
		var rec func(ctx sdk.Context, m *ref.DistModel, d int)
		rec = func(ctx sdk.Context, m *ref.DistModel, d int) {
			if d == depth {
				return
			}
			for _, p := range pats {
				c := harness.Branch(ctx)
				mm := m.Clone()
				applyInflow(w, c, mm, srcs, p)
				hist = append(hist, p.Name)
				hdr := c.BlockHeader()
				hdr.Height++
				hdr.Time = hdr.Time.Add(5e9)
				c = c.WithBlockHeader(hdr)
				panicked := false
				func() {
					defer func() {
						if r := recover(); r != nil {
							panicked = true
							if prop == "C03" {
								rc.Violate(&explore.Violation{Property: prop, Sig: prop + ":panic", What: fmt.Sprintf("%s: BeginBlocker panicked: %v", cfg, r), Path: append([]string{}, hist...), Detail: map[string]interface{}{"config": cfg}})
							}
						}
					}()
					cfedistributor.BeginBlocker(c, k)
				}()
				atomic.AddInt64(&st.blocks, 1)
				if !panicked {
					report := func(sig, what string) {
						rc.Violate(&explore.Violation{Property: prop, Sig: prop + ":" + sig, What: cfg.String() + ": " + what, Path: append([]string{}, hist...), Detail: map[string]interface{}{"config": cfg, "config_str": cfg.String()}})
					}
					switch prop {
					case "C03":
						c03Oracle(w, c, k, report)
					case "C18":
						mm.Block()
						c18DistEvents(c.EventManager().ABCIEvents(), mm, report)
					default:
						mm.Block()
						c04Oracle(w, c, k, cfg, mm, cfg.hasFailing(), report)
					}
					for _, s := range k.GetAllStates(c) {
						if !s.Remains.IsZero() {
							atomic.AddInt64(&st.withRemainder, 1)
							break
						}
					}
					rec(c, mm, d+1)
				}
				hist = hist[:len(hist)-1]
			}
		}
		m0 := cfg.Model()
		for _, a := range cfg.bankAccounts() {
			if b := w.App.BankKeeper.GetAllBalances(base, bankAddr(a)); !b.IsZero() {
				m0.Bal[modelBankKey(a)] = amtOfCoins(b)
			}
		}
		rec(base, m0, 0)
		if ci%(len(cfgs)/6+1) == 0 {
			mu.Lock()
			samples = append(samples, map[string]interface{}{"config": cfg.String(), "histories": "all sequences of " + fmt.Sprint(depth) + " blocks over inflow patterns"})
			mu.Unlock()
		}
	})
	nh := 0
	x := 1
	for i := 0; i < depth; i++ {
		x *= len(pats)
		nh += x
	}
	var pn []string
	for _, p := range pats {
		pn = append(pn, p.Name)
	}
	rc.Level = "model_checking"
	rc.Cov = map[string]interface{}{
		"states": int(st.blocks) + len(cfgs), "transitions": int(st.blocks), "traces_validated_against_impl": 0,
		"configurations_enumerated": int(st.candidates), "configurations_accepted_by_validation": int(st.accepted),
		"configurations_with_several_bank_sources": int(st.multiSource),
		"blocks_leaving_fractional_leftovers":      int(st.withRemainder),
		"inflow_patterns":                          pn, "blocks_per_history": depth, "histories_per_configuration": x, "exhaustive": true,
		"configurations_explored": int(explored), "configurations_explored_with_the_longest_histories": int(exploredDeep),
		"samples":     samples,
		"explanation": "states = (configuration, inflow-history prefix) pairs, transitions = real cfedistributor.BeginBlocker calls on store branches of the real application; configurations are the complete product alphabet filtered by the real Params.Validate.",
	}
	rc.Assume = []string{"module level: inflows are placed into source accounts directly and only the distributor's BeginBlocker runs, so no other module moves the audited coins"}
}

func init() {
	Register(&Check{ID: "C03", Level: "model_checking", Run: func(rc *RunCtx) { runDist(rc, "C03") }})
	Register(&Check{ID: "C04", Level: "model_checking", Run: func(rc *RunCtx) { runDist(rc, "C04") }})
}
