package props

import (
	"crypto/sha256"
	"encoding/hex"
	"encoding/json"
	"fmt"
	"os"
	"os/exec"
	"path/filepath"
	"sort"
	"strings"
	"sync"
	"time"

	"c4emc/explore"
	"c4emc/harness"
	"c4emc/ref"

	dtypes "github.com/chain4energy/c4e-chain/x/cfedistributor/types"
	vtypes "github.com/chain4energy/c4e-chain/x/cfevesting/types"
	sdk "github.com/cosmos/cosmos-sdk/types"
	banktypes "github.com/cosmos/cosmos-sdk/x/bank/types"
)

func init() { Register(&Check{ID: "C11", Level: "model_checking", Run: runC11}) }

// named scenarios a replica process can rebuild on its own
func c11Scenario(name string) *Scenario {
	switch name {
	case "c01":
		return &Scenario{Name: name, Genesis: harness.BuildGenesis(c01Genesis()), T0: harness.T0, Events: c01Events()}
	case "c05":
		return vestScenario(name, "C11", c05Cfg())
	case "c06":
		// one owner, three pools maturing at different times: withdrawals that pay from several pools at once
		return vestScenario(name, "C11", c06Cfg())
	case "c10":
		var evs []Ev
		for _, e := range c10Events(false) {
			if e.Custom == nil {
				evs = append(evs, e)
			}
		}
		return &Scenario{Name: name, Genesis: harness.BuildGenesis(c10Genesis()), T0: harness.T0, Events: evs}
	case "c13":
		return &Scenario{Name: name, Genesis: harness.BuildGenesis(c13Genesis()), T0: harness.T0, Events: c13Events()}
	case "c15":
		return &Scenario{Name: name, Genesis: harness.BuildGenesis(harness.Genesis{Balances: map[string]sdk.Coins{"sigA": coins(5), "sigB": coins(5)}}), T0: harness.T0, Events: c15Events(loadSigFixtures())}
	case "c17":
		return &Scenario{Name: name, Genesis: harness.BuildGenesis(c17Genesis()), T0: harness.T0, Events: c17Events(false)}
	case "decoy":
		// the application that runs next to a replica in the same process: parameters unlike any
		// scenario's, so whatever leaks from it into the replica changes the replica's behaviour
		d := c11Scenario("c11dist")
		g := c13Genesis()
		g.Balances = map[string]sdk.Coins{"A": sdk.NewCoins(sdk.NewInt64Coin(harness.Denom, 900), sdk.NewInt64Coin(denomB, 90)), "U1": coins(33), "U2": coins(1)}
		g.Minter = mintCfg{Periods: []mp{{Kind: ref.Linear, Amount: "7777777", End: 50 * time.Second}, {Kind: ref.ExpStep, Amount: "123456", Step: 7 * time.Second, Mult: "0.9"}}}.Genesis(harness.T0)
		dp := c13DistParams()
		dp.SubDistributors[0].Destinations.BurnShare = sdk.MustNewDecFromStr("0.25")
		dp.SubDistributors[0].Destinations.Shares[0].Share = sdk.MustNewDecFromStr("0.45")
		g.Distr = &dtypes.GenesisState{Params: dp}
		g.Vesting.VestingTypes[0].Free = sdk.MustNewDecFromStr("0.2")
		return &Scenario{Name: name, Genesis: harness.BuildGenesis(g), T0: harness.T0, Events: d.Events}
	case "c11dist":
		// several bank-backed sources per sub-distributor (two of them module accounts that are only
		// created lazily), several destinations, two denominations: every collection the distributor
		// walks has >= 2 elements, so an order-dependent walk shows in events or account numbers
		g := c13Genesis()
		g.Balances = map[string]sdk.Coins{"A": sdk.NewCoins(sdk.NewInt64Coin(harness.Denom, 500), sdk.NewInt64Coin(denomB, 50)), "U1": sdk.NewCoins(sdk.NewInt64Coin(harness.Denom, 50), sdk.NewInt64Coin(denomB, 7)), "U2": coins(0)}
		src := func(a dacc) *dtypes.Account { return &dtypes.Account{Id: a.ID, Type: a.Type} }
		g.Distr = &dtypes.GenesisState{Params: dtypes.Params{SubDistributors: []dtypes.SubDistributor{
			{Name: "collect", Sources: []*dtypes.Account{src(aMfee), src(aMgeb), src(dacc{dtypes.ModuleAccount, dtypes.GovernanceBoosterCollector}), src(aU("U1"))},
				Destinations: dtypes.Destinations{PrimaryShare: dAcc(aI1), BurnShare: sdk.MustNewDecFromStr("0.1"),
					Shares: []*dtypes.DestinationShare{{Name: "dev", Share: sdk.MustNewDecFromStr("0.3"), Destination: dAcc(aU("U2"))}, {Name: "val", Share: sdk.MustNewDecFromStr("0.2"), Destination: dAcc(aVRC)}}}},
			{Name: "main", Sources: []*dtypes.Account{src(aI1), src(aMAIN)},
				Destinations: dtypes.Destinations{PrimaryShare: dAcc(aVRC), BurnShare: sdk.ZeroDec(),
					Shares: []*dtypes.DestinationShare{{Name: "boost", Share: sdk.MustNewDecFromStr("0.2"), Destination: dAcc(aU("U2"))}}}},
		}}}
		evs := []Ev{{Name: "block+1s", Block: time.Second}, {Name: "block+40s", Block: 40 * time.Second},
			{Name: "tx-with-fee(A,7)", Fee: coins(7), Build: func(v View) (sdk.Msg, string) { return vtypes.NewMsgWithdrawAllAvailable(harness.AddrS("A")), "A" }},
			{Name: "banksend(A->U1,11uc4e+3ubb)", Build: func(v View) (sdk.Msg, string) {
				return banktypes.NewMsgSend(harness.Addr("A"), harness.Addr("U1"), sdk.NewCoins(sdk.NewInt64Coin(harness.Denom, 11), sdk.NewInt64Coin(denomB, 3))), "A"
			}},
			{Name: "pool(A,p,10)", Build: func(v View) (sdk.Msg, string) {
				return vtypes.NewMsgCreateVestingPool(harness.AddrS("A"), "p", sdk.NewInt(10), 5*time.Second, "t5"), "A"
			}},
		}
		return &Scenario{Name: name, Genesis: harness.BuildGenesis(g), T0: harness.T0, Events: evs}
	}
	return nil
}

type replicaJob struct {
	Scenario string     `json:"scenario"`
	Paths    [][]uint16 `json:"paths"`
}

// replicaVariant: replica 0 is a plain node. Every other replica is also a different kind of node:
// it is restarted after every block (a new application object over the same database, so nothing
// but chain state survives a block) and it runs every transaction through CheckTx and Simulate
// before and after delivering it (handlers executed on states that are thrown away). Responses
// and app hashes must not depend on any of that.
func replicaVariant(n *harness.Node, idx int) {
	if idx > 0 {
		n.RestartEachBlock = true
		n.SimulateNoise = true
	}
}

type replicaOut struct {
	// per trace: digest of the transcript after every step
	Steps [][]string `json:"steps"`
	// full transcript lines of the traces listed in Keep (for diagnostics)
}

// ReplicaMain is the body of `c4emc replica <jobfile> <outfile> [trace-index]`: it rebuilds the scenario,
// replays every trace through the ABCI driver and writes the transcript digests.
func ReplicaMain(jobFile, outFile string, only int, variant int) int {
	bz, err := os.ReadFile(jobFile)
	if err != nil {
		fmt.Fprintln(os.Stderr, err)
		return 2
	}
	var job replicaJob
	if err := json.Unmarshal(bz, &job); err != nil {
		fmt.Fprintln(os.Stderr, err)
		return 2
	}
	scn := c11Scenario(job.Scenario)
	if scn == nil {
		fmt.Fprintln(os.Stderr, "unknown scenario", job.Scenario)
		return 2
	}
	out := replicaOut{Steps: make([][]string, len(job.Paths))}
	full := map[int][]string{}
	var mu sync.Mutex
	ParallelFor(DefaultWorkers(), len(job.Paths), func(_ int, i int) {
		if only >= 0 && i != only {
			return
		}
		var tr []string
		n := harness.NewNode(scn.Genesis, scn.T0)
		n.Transcript = &tr
		replicaVariant(n, variant)
		var decoy *harness.Node
		var decoyScn *Scenario
		decoyStep := 0
		if variant > 0 {
			decoyScn = c11Scenario("decoy")
			decoy = harness.NewNode(decoyScn.Genesis, decoyScn.T0)
		}
		var digs []string
		h := sha256.New()
		done := 0
		for _, e := range job.Paths[i] {
			if decoy != nil {
				// the decoy keeps the same block height and time as the replica (it closes a block
				// whenever the replica does) and otherwise walks round robin through its own messages
				if dt := scn.Events[e].Block; dt > 0 {
					if dt > 100*time.Second {
						dt = 100 * time.Second // the decoy's minter has 7 s steps: a jump of decades would keep it busy for hours
					}
					decoy.NextBlock(dt)
				} else {
					for tries := 0; tries < len(decoyScn.Events); tries++ {
						ev := &decoyScn.Events[decoyStep%len(decoyScn.Events)]
						decoyStep++
						if ev.Block > 0 {
							continue
						}
						if _, _, _, ok := RunEventB(decoyScn, decoy, ev); ok {
							break
						}
					}
				}
			}
			if _, _, _, ok := RunEventB(scn, n, &scn.Events[e]); !ok {
				tr = append(tr, "not-enabled")
			}
			for ; done < len(tr); done++ {
				h.Write([]byte(tr[done]))
				h.Write([]byte{'\n'})
			}
			digs = append(digs, hex.EncodeToString(h.Sum(nil)[:12]))
		}
		// close the last block so that its app hash is part of the comparison
		n.NextBlock(time.Second)
		for ; done < len(tr); done++ {
			h.Write([]byte(tr[done]))
			h.Write([]byte{'\n'})
		}
		digs = append(digs, hex.EncodeToString(h.Sum(nil)[:12]))
		mu.Lock()
		out.Steps[i] = digs
		if only >= 0 {
			full[i] = tr
		}
		mu.Unlock()
	})
	var res interface{} = out
	if only >= 0 {
		res = full[only]
	}
	ob, _ := json.Marshal(res)
	if err := os.WriteFile(outFile, ob, 0o644); err != nil {
		fmt.Fprintln(os.Stderr, err)
		return 2
	}
	return 0
}

// c11UpgradeCases: pre-upgrade states on which the replicas run the whole v1.2.0 handler (the quick
// tier's C16 cases that exercise the split, the migrations and every kind of hard-coded account).
func c11UpgradeCases() []c16Case {
	var out []c16Case
	for _, c := range c16Cases(false) {
		if len(out) < 400 {
			out = append(out, c)
		}
	}
	return out
}

// ReplicaUpgradeMain is the body of `c4emc replica-upgrade <outfile>`: it runs the upgrade handler on
// every case and writes one digest of the resulting stores per case. The parent starts the replicas
// with different TZ environment variables.
func ReplicaUpgradeMain(outFile string) int {
	cases := c11UpgradeCases()
	digs := make([]string, len(cases))
	genesis := c16Genesis()
	workers := DefaultWorkers()
	worlds := make([]*harness.World, workers)
	var st c16Stats
	ParallelFor(workers, len(cases), func(wk, i int) {
		if worlds[wk] == nil {
			worlds[wk] = harness.NewWorld(genesis, harness.T0)
		}
		w := worlds[wk]
		digs[i] = "upgrade-failed"
		c16Run(w, cases[i], &st, func(string, string) {}, func(ctx sdk.Context) {
			digs[i] = harness.Digest(w.App, ctx, harness.T0)
		})
	})
	ob, _ := json.Marshal(digs)
	if err := os.WriteFile(outFile, ob, 0o644); err != nil {
		fmt.Fprintln(os.Stderr, err)
		return 2
	}
	return 0
}

// c11Upgrade: the v1.2.0 upgrade handler executed by processes that differ in their environment
// (time zone): the state it leaves must be the same.
func c11Upgrade(rc *RunCtx, self, dir string, cov map[string]interface{}) {
	// two replicas in the same zone (anything that differs between them is plain non-determinism, e.g.
	// map order), the others in zones with daylight saving
	zones := []string{"UTC", "UTC", "Europe/Warsaw", "America/New_York", "Pacific/Chatham"}
	if !rc.Thorough() {
		zones = zones[:4]
	}
	outs := make([][]string, len(zones))
	errs := make([]error, len(zones))
	var wg sync.WaitGroup
	for r, z := range zones {
		wg.Add(1)
		go func(r int, z string) {
			defer wg.Done()
			of := filepath.Join(dir, fmt.Sprintf("upgrade.replica%d.json", r))
			cmd := exec.Command(self, "replica-upgrade", of)
			cmd.Env = append(os.Environ(), "TZ="+z, fmt.Sprintf("GOMAXPROCS=%d", max(2, 16/len(zones))))
			cmd.Stderr = os.Stderr
			if err := cmd.Run(); err != nil {
				errs[r] = err
				return
			}
			ob, err := os.ReadFile(of)
			if err != nil {
				errs[r] = err
				return
			}
			errs[r] = json.Unmarshal(ob, &outs[r])
		}(r, z)
	}
	wg.Wait()
	for r, e := range errs {
		if e != nil {
			rc.Logf("upgrade replica %d (%s) failed: %v", r, zones[r], e)
			rc.MachineryError = true
			return
		}
	}
	cases := c11UpgradeCases()
	// do the two replicas in the same zone agree everywhere? if not, differences are not about zones
	sameZoneDiffers := false
	for i := range cases {
		if i < len(outs[0]) && i < len(outs[1]) && outs[0][i] != outs[1][i] {
			sameZoneDiffers = true
		}
	}
	diverged := 0
	for i := range cases {
		for r := 1; r < len(zones); r++ {
			if i < len(outs[r]) && i < len(outs[0]) && outs[r][i] != outs[0][i] {
				diverged++
				if diverged == 1 {
					sig, what := "C11:upgrade-depends-on-time-zone", fmt.Sprintf("the v1.2.0 upgrade handler leaves different state in a process with TZ=%s than with TZ=%s", zones[r], zones[0])
					if zones[r] == zones[0] || sameZoneDiffers {
						sig, what = "C11:upgrade-not-deterministic", "two processes in the same environment executing the v1.2.0 upgrade handler on the same pre-upgrade state leave different state"
					}
					rc.Violate(&explore.Violation{Property: "C11", Sig: sig,
						What:   fmt.Sprintf("%s (pre-upgrade state %s: owner pools %v, hard-coded accounts %v)", what, cases[i].Label, cases[i].OwnerPools, cases[i].Accounts),
						Detail: map[string]interface{}{"case": cases[i], "zones": []string{zones[0], zones[r]}}})
				}
				break
			}
		}
	}
	cov["upgrade"] = map[string]interface{}{"pre_upgrade_states": len(cases), "replica_time_zones": zones, "diverging_states": diverged}
	rc.Logf("upgrade: %d pre-upgrade states x %d time zones compared", len(cases), len(zones))
}

func runC11(rc *RunCtx) {
	replicas, depth := 2, map[string]int{"c01": 3, "c05": 3, "c06": 4, "c10": 3, "c13": 2, "c15": 3, "c17": 3, "c11dist": 4}
	if rc.Thorough() {
		replicas = 4
		depth = map[string]int{"c01": 4, "c05": 4, "c06": 5, "c10": 4, "c13": 3, "c15": 3, "c17": 4, "c11dist": 6}
	}
	self, err := os.Executable()
	if err != nil {
		panic(err)
	}
	dir := filepath.Join(VerifDir, ".build", "c11")
	_ = os.MkdirAll(dir, 0o755)
	cov := map[string]interface{}{}
	totalTraces, totalSteps, states, transitions := 0, 0, 0, 0
	var samples []interface{}
	names11 := []string{"c11dist", "c01", "c05", "c06", "c10", "c13", "c15", "c17"}
	for _, name := range names11 {
		scn := c11Scenario(name)
		// every transition of the exploration is also executed ten more times on the same state
		scn.RepeatProperty, scn.Repeat = "C11", 10
		scn.StepOracle, scn.StateOracle = nil, nil
		sys := scnSystem{scn}
		res := explore.Run(sys, explore.Options{MaxDepth: depth[name], Workers: rc.Workers, Budget: 5 * time.Minute, KeepTree: true})
		rc.ViolateAll(res.Violations)
		events := sys.Events()
		paths := explore.MaximalPaths(res.Tree)
		sort.Slice(paths, func(i, j int) bool { return fmt.Sprint(paths[i]) < fmt.Sprint(paths[j]) })
		states += res.States
		transitions += res.Transitions
		job := replicaJob{Scenario: name, Paths: paths}
		jb, _ := json.Marshal(job)
		jobFile := filepath.Join(dir, name+".job.json")
		if err := os.WriteFile(jobFile, jb, 0o644); err != nil {
			panic(err)
		}
		outs := make([]replicaOut, replicas)
		var wg sync.WaitGroup
		errs := make([]error, replicas)
		for r := 0; r < replicas; r++ {
			wg.Add(1)
			go func(r int) {
				defer wg.Done()
				// replicas start 1.3 s apart: every history is executed in a different wall-clock second
				// on each of them, so a value derived from the wall clock cannot coincide by accident
				time.Sleep(time.Duration(r) * 1300 * time.Millisecond)
				of := filepath.Join(dir, fmt.Sprintf("%s.replica%d.json", name, r))
				cmd := exec.Command(self, "replica", jobFile, of, "-1", fmt.Sprint(r))
				cmd.Env = append(os.Environ(), fmt.Sprintf("GOMAXPROCS=%d", max(2, 16/replicas)))
				cmd.Stderr = os.Stderr
				if err := cmd.Run(); err != nil {
					errs[r] = err
					return
				}
				ob, err := os.ReadFile(of)
				if err != nil {
					errs[r] = err
					return
				}
				errs[r] = json.Unmarshal(ob, &outs[r])
			}(r)
		}
		wg.Wait()
		for r, e := range errs {
			if e != nil {
				rc.Logf("replica %d of %s failed: %v", r, name, e)
				rc.MachineryError = true
			}
		}
		if rc.MachineryError {
			break
		}
		diverged := 0
		explained := map[string]bool{}
		for i := range paths {
			for r := 1; r < replicas; r++ {
				a, b := outs[0].Steps[i], outs[r].Steps[i]
				step := -1
				for k := 0; k < len(a) && k < len(b); k++ {
					if a[k] != b[k] {
						step = k
						break
					}
				}
				if step < 0 && len(a) == len(b) {
					continue
				}
				diverged++
				evName := "final-commit"
				if step >= 0 && step < len(paths[i]) {
					evName = evKind(events[paths[i][step]])
				}
				// one explanation (two more processes, a few seconds) per kind of divergence, not per history
				if explained[name+":"+evName] {
					break
				}
				explained[name+":"+evName] = true
				what := c11Explain(self, jobFile, dir, name, i, events, paths[i], step)
				rc.Violate(&explore.Violation{Property: "C11", Sig: "C11:replicas-diverge:" + name + ":" + evName, What: fmt.Sprintf("scenario %s: two independent processes executing the same history disagree at step %d: %s", name, step, what), Path: names(events, paths[i])})
				break
			}
		}
		nsteps := 0
		for _, p := range paths {
			nsteps += len(p) + 1
		}
		totalTraces += len(paths)
		totalSteps += nsteps
		cov[name] = map[string]interface{}{"histories": len(paths), "abci_steps_per_replica": nsteps, "states": res.States, "depth": depth[name], "diverging_histories": diverged}
		if len(paths) > 0 {
			samples = append(samples, map[string]interface{}{"scenario": name, "history": names(events, paths[len(paths)/2])})
		}
		rc.Logf("%s: %d histories x %d replicas compared", name, len(paths), replicas)
	}
	if !rc.MachineryError {
		c11Upgrade(rc, self, dir, cov)
	}
	cov["states"] = states
	cov["transitions"] = transitions
	cov["traces_validated_against_impl"] = totalTraces
	cov["repeated_executions_per_transition"] = 10
	cov["replicas"] = replicas
	cov["replica_kinds"] = "replica 0: plain node; every other replica: restarted after every block (new application object over the same database) and running CheckTx + Simulate around every delivered transaction, with an unrelated decoy application stepping in the same process"
	cov["histories_compared"] = totalTraces
	cov["abci_steps_compared_per_replica"] = totalSteps
	cov["samples"] = samples
	cov["exhaustive"] = true
	cov["limit"] = "exhaustive over the listed histories, not over Go map iteration orders: each replica is a separate OS process with its own map seeds, pointers and wall clock; a state-affecting map iteration with >= 2 entries is missed by one history with probability <= 2^-(R-1)"
	rc.Cov = cov
	rc.Level = "model_checking"
	rc.Assume = []string{"compared per ABCI response: code, codespace, data, gas wanted/used, events, and the Commit app hash; Log/Info strings are excluded (ABCI declares them non-deterministic)"}
}

func max(a, b int) int {
	if a > b {
		return a
	}
	return b
}

// c11Explain re-runs one history in two fresh processes with full transcripts and reports the first differing line.
func c11Explain(self, jobFile, dir, name string, idx int, events []string, path []uint16, step int) string {
	var tr [2][]string
	for r := 0; r < 2; r++ {
		of := filepath.Join(dir, fmt.Sprintf("%s.explain%d.json", name, r))
		if r > 0 {
			time.Sleep(1300 * time.Millisecond) // a different wall-clock second than the first re-run
		}
		cmd := exec.Command(self, "replica", jobFile, of, fmt.Sprint(idx), fmt.Sprint(r))
		if err := cmd.Run(); err != nil {
			return "(could not re-run for explanation: " + err.Error() + ")"
		}
		ob, _ := os.ReadFile(of)
		_ = json.Unmarshal(ob, &tr[r])
	}
	for k := 0; k < len(tr[0]) && k < len(tr[1]); k++ {
		if tr[0][k] != tr[1][k] {
			a, b := tr[0][k], tr[1][k]
			// show the differing region only
			p := 0
			for p < len(a) && p < len(b) && a[p] == b[p] {
				p++
			}
			lo := p - 60
			if lo < 0 {
				lo = 0
			}
			cut := func(s string) string {
				hi := p + 120
				if hi > len(s) {
					hi = len(s)
				}
				return s[lo:hi]
			}
			return fmt.Sprintf("ABCI response %d differs: ...%s... vs ...%s...", k, cut(a), cut(b))
		}
	}
	return "(the explanation re-run, which executes this one history alone in each process, did not diverge: the difference depends on something the history does not fix - Go map order, or process-level state shared with the other histories that the replica processes execute side by side)"
}

var _ = strings.Join
