package props

import (
	"bytes"
	"fmt"
	"time"

	"c4emc/explore"
	"c4emc/harness"

	sigtypes "github.com/chain4energy/c4e-chain/x/cfesignature/types"
	vtypes "github.com/chain4energy/c4e-chain/x/cfevesting/types"
	sdk "github.com/cosmos/cosmos-sdk/types"
	authtypes "github.com/cosmos/cosmos-sdk/x/auth/types"
	vestingtypes "github.com/cosmos/cosmos-sdk/x/auth/vesting/types"
	banktypes "github.com/cosmos/cosmos-sdk/x/bank/types"
	govtypes "github.com/cosmos/cosmos-sdk/x/gov/types"
	stakingtypes "github.com/cosmos/cosmos-sdk/x/staking/types"
)

func init() { Register(&Check{ID: "C09", Level: "model_checking", Run: runC09}) }

type c09Target struct {
	Name string
	Addr sdk.AccAddress
	Key  string // label whose key matches the address ("" for module accounts)
}

func c09Targets() []c09Target {
	return []c09Target{
		{"absent", harness.Addr("Tabs"), "Tabs"},
		{"base", harness.Addr("Tbase"), "Tbase"},
		{"base+key+seq7", harness.Addr("Tkey"), "Tkey"},
		{"contvesting+delegated", harness.Addr("Tcv"), "Tcv"},
		{"delayedvesting", harness.Addr("Tdv"), "Tdv"},
		{"module-blocked", harness.ModAddr(authtypes.FeeCollectorName), ""},
		{"module-gov", harness.ModAddr(govtypes.ModuleName), ""},
		{"sender-V", harness.Addr("V"), "V"},
	}
}

func c09Genesis() harness.Genesis {
	t0 := harness.T0.Unix()
	g := harness.Genesis{Balances: map[string]sdk.Coins{"A": coins(100), "S": coins(5), "Tbase": coins(2)}}
	keyAcc := authtypes.NewBaseAccount(harness.Addr("Tkey"), harness.Key("Tkey").PubKey(), 0, 7)
	g.Accounts = append(g.Accounts, keyAcc)
	g.ExtraBal = append(g.ExtraBal, banktypes.Balance{Address: harness.AddrS("Tkey"), Coins: coins(3)})
	cv := vestingtypes.NewContinuousVestingAccountRaw(vestingtypes.NewBaseVestingAccount(authtypes.NewBaseAccountWithAddress(harness.Addr("Tcv")), coins(20), t0+1000), t0)
	cv.DelegatedVesting = coins(6)
	g.Accounts = append(g.Accounts, cv)
	g.ExtraBal = append(g.ExtraBal, banktypes.Balance{Address: harness.AddrS("Tcv"), Coins: coins(14)})
	g.Delegations = map[string]sdk.Int{harness.AddrS("Tcv"): sdk.NewInt(6)}
	dv := vestingtypes.NewDelayedVestingAccountRaw(vestingtypes.NewBaseVestingAccount(authtypes.NewBaseAccountWithAddress(harness.Addr("Tdv")), coins(11), t0+500))
	g.Accounts = append(g.Accounts, dv)
	g.ExtraBal = append(g.ExtraBal, banktypes.Balance{Address: harness.AddrS("Tdv"), Coins: coins(11)})
	v := vestingtypes.NewContinuousVestingAccountRaw(vestingtypes.NewBaseVestingAccount(authtypes.NewBaseAccountWithAddress(harness.Addr("V")), sdk.NewCoins(sdk.NewInt64Coin(harness.Denom, 30), sdk.NewInt64Coin(denomB, 8)), t0+1000), t0)
	g.Accounts = append(g.Accounts, v)
	g.ExtraBal = append(g.ExtraBal, banktypes.Balance{Address: harness.AddrS("V"), Coins: sdk.NewCoins(sdk.NewInt64Coin(harness.Denom, 33), sdk.NewInt64Coin(denomB, 8))})
	// W: a sender whose delegation was larger than what was still vesting, so both delegated-vesting
	// and delegated-free are tracked; its uc4e is all delegated, its second denomination is locked
	wv := vestingtypes.NewContinuousVestingAccountRaw(vestingtypes.NewBaseVestingAccount(authtypes.NewBaseAccountWithAddress(harness.Addr("W")), sdk.NewCoins(sdk.NewInt64Coin(harness.Denom, 10), sdk.NewInt64Coin(denomB, 8)), t0+1000), t0)
	wv.DelegatedVesting = coins(10)
	wv.DelegatedFree = coins(3)
	g.Accounts = append(g.Accounts, wv)
	g.ExtraBal = append(g.ExtraBal, banktypes.Balance{Address: harness.AddrS("W"), Coins: sdk.NewCoins(sdk.NewInt64Coin(harness.Denom, 2), sdk.NewInt64Coin(denomB, 8))})
	g.Delegations[harness.AddrS("W")] = sdk.NewInt(13)
	g.Vesting = &vtypes.GenesisState{
		Params:       vtypes.Params{Denom: harness.Denom},
		VestingTypes: []vtypes.GenesisVestingType{{Name: "t5", LockupPeriod: 5, LockupPeriodUnit: "second", VestingPeriod: 10, VestingPeriodUnit: "second", Free: sdk.NewDecWithPrec(5, 1)}},
		AccountVestingPools: []*vtypes.AccountVestingPools{{Owner: harness.AddrS("A"), VestingPools: []*vtypes.VestingPool{
			{Name: "p", VestingType: "t5", LockStart: harness.T0, LockEnd: harness.T0.Add(time.Hour), InitiallyLocked: sdk.NewInt(50), Withdrawn: sdk.ZeroInt(), Sent: sdk.ZeroInt()}}}},
		VestingAccountTraces: []vtypes.VestingAccountTrace{},
	}
	g.ExtraBal = append(g.ExtraBal, banktypes.Balance{Address: harness.ModAddr(vtypes.ModuleName).String(), Coins: coins(50)})
	_ = stakingtypes.ModuleName
	return g
}

func pubKeyJSON(label string) string {
	bz, err := harness.Enc().Marshaler.MarshalInterfaceJSON(harness.Key(label).PubKey())
	if err != nil {
		panic(err)
	}
	return string(bz)
}

func c09Events() []Ev {
	evs := []Ev{{Name: "block+1s", Block: time.Second}}
	for _, t := range c09Targets() {
		t := t
		to := t.Addr.String()
		evs = append(evs,
			Ev{Name: "poolsend(A.p,3->" + t.Name + ")", Build: func(v View) (sdk.Msg, string) {
				return vtypes.NewMsgSendToVestingAccount(harness.AddrS("A"), to, "p", sdk.NewInt(3), true), "A"
			}},
			// amounts whose vesting part is empty (0, and 1 with free 0.5): degenerate requests are where guards get skipped
			Ev{Name: "poolsend(A.p,0->" + t.Name + ")", Build: func(v View) (sdk.Msg, string) {
				return vtypes.NewMsgSendToVestingAccount(harness.AddrS("A"), to, "p", sdk.NewInt(0), false), "A"
			}},
			Ev{Name: "poolsend(A.p,1->" + t.Name + ")", Build: func(v View) (sdk.Msg, string) {
				return vtypes.NewMsgSendToVestingAccount(harness.AddrS("A"), to, "p", sdk.NewInt(1), true), "A"
			}},
			Ev{Name: "createVA(A->" + t.Name + ",no coins)", Build: func(v View) (sdk.Msg, string) {
				now := v.Ctx.BlockTime().Unix()
				return vtypes.NewMsgCreateVestingAccount(harness.AddrS("A"), to, sdk.Coins{}, now, now), "A"
			}},
			Ev{Name: "movedenoms(V,nosuch->" + t.Name + ")", Build: func(v View) (sdk.Msg, string) {
				return vtypes.NewMsgMoveAvailableVestingByDenoms(harness.AddrS("V"), to, []string{"nosuchdenom"}), "V"
			}},
			Ev{Name: "createVA(A->" + t.Name + ")", Build: func(v View) (sdk.Msg, string) {
				now := v.Ctx.BlockTime().Unix()
				return vtypes.NewMsgCreateVestingAccount(harness.AddrS("A"), to, coins(4), now, now+100), "A"
			}},
			Ev{Name: "split(V,2->" + t.Name + ")", Build: func(v View) (sdk.Msg, string) {
				return vtypes.NewMsgSplitVesting(harness.AddrS("V"), to, coins(2)), "V"
			}},
			Ev{Name: "move(V->" + t.Name + ")", Build: func(v View) (sdk.Msg, string) {
				return vtypes.NewMsgMoveAvailableVesting(harness.AddrS("V"), to), "V"
			}},
			Ev{Name: "movedenoms(V,ubb->" + t.Name + ")", Build: func(v View) (sdk.Msg, string) {
				return vtypes.NewMsgMoveAvailableVestingByDenoms(harness.AddrS("V"), to, []string{denomB}), "V"
			}},
			Ev{Name: "split(S-stranger,2->" + t.Name + ")", Build: func(v View) (sdk.Msg, string) {
				return vtypes.NewMsgSplitVesting(harness.AddrS("S"), to, coins(2)), "S"
			}},
		)
		keys := map[string]string{"foreign": pubKeyJSON("S"), "malformed": "{\"@type\":"}
		if t.Key != "" {
			keys["matching"] = pubKeyJSON(t.Key)
		}
		for _, kn := range []string{"matching", "foreign", "malformed"} {
			kj, ok := keys[kn]
			if !ok {
				continue
			}
			for _, creator := range []string{"A", "S"} {
				creator := creator
				evs = append(evs, Ev{Name: fmt.Sprintf("sigCreateAccount(%s,key=%s,by=%s)", t.Name, kn, creator), Build: func(v View) (sdk.Msg, string) {
					return sigtypes.NewMsgCreateAccount(harness.AddrS(creator), to, kj), creator
				}})
			}
		}
	}
	// the over-delegated two-denomination sender W (its own account may only lose original vesting)
	for _, tn := range []string{"absent", "base"} {
		to := harness.Addr(map[string]string{"absent": "Tabs", "base": "Tbase"}[tn]).String()
		evs = append(evs,
			Ev{Name: "split(W-overdelegated,2ubb->" + tn + ")", Build: func(v View) (sdk.Msg, string) {
				return vtypes.NewMsgSplitVesting(harness.AddrS("W"), to, sdk.NewCoins(sdk.NewInt64Coin(denomB, 2))), "W"
			}},
			Ev{Name: "move(W-overdelegated->" + tn + ")", Build: func(v View) (sdk.Msg, string) {
				return vtypes.NewMsgMoveAvailableVesting(harness.AddrS("W"), to), "W"
			}},
		)
	}
	// a sender that is a delayed (not a continuous) vesting account: whatever the verdict, its account
	// may not change kind
	evs = append(evs,
		Ev{Name: "split(Tdv-delayed,2->absent)", Build: func(v View) (sdk.Msg, string) {
			return vtypes.NewMsgSplitVesting(harness.AddrS("Tdv"), harness.AddrS("Tabs"), coins(2)), "Tdv"
		}},
		Ev{Name: "move(Tdv-delayed->absent)", Build: func(v View) (sdk.Msg, string) {
			return vtypes.NewMsgMoveAvailableVesting(harness.AddrS("Tdv"), harness.AddrS("Tabs")), "Tdv"
		}},
	)
	return evs
}

// c09Step: every account that existed before the message is byte-identical afterwards, except the
// signer's own sequence / public key (ante handler) and the reduction of the split/move sender's
// original vesting.
func c09Step(si *StepInfo) (interface{}, []*explore.Violation) {
	if si.Ev.Block > 0 || si.Out.Class == harness.Invalid {
		return si.Aux, nil
	}
	var vs []*explore.Violation
	app := si.W.App
	cdc := app.AppCodec()
	pre := si.Pre.KVStore(app.GetKey(authtypes.StoreKey))
	post := si.Post.KVStore(app.GetKey(authtypes.StoreKey))
	it := pre.Iterator(authtypes.AddressStoreKeyPrefix, sdk.PrefixEndBytes(authtypes.AddressStoreKeyPrefix))
	defer it.Close()
	signer := harness.Addr(si.Sign)
	for ; it.Valid(); it.Next() {
		before := it.Value()
		after := post.Get(it.Key())
		if bytes.Equal(before, after) {
			continue
		}
		addr := sdk.AccAddress(it.Key()[1:])
		var a, b authtypes.AccountI
		if after == nil {
			vs = append(vs, &explore.Violation{Property: "C09", Sig: "C09:account-removed:" + sdk.MsgTypeURL(si.Msg), What: fmt.Sprintf("%s removed the existing account %s", si.Ev.Name, addr)})
			continue
		}
		if err := cdc.UnmarshalInterface(before, &a); err != nil {
			panic(err)
		}
		if err := cdc.UnmarshalInterface(after, &b); err != nil {
			vs = append(vs, &explore.Violation{Property: "C09", Sig: "C09:account-corrupt:" + sdk.MsgTypeURL(si.Msg), What: fmt.Sprintf("%s left an undecodable account at %s", si.Ev.Name, addr)})
			continue
		}
		if addr.Equals(signer) {
			// ante handler effects on the signer are not the message's doing
			_ = a.SetSequence(0)
			_ = b.SetSequence(0)
			_ = a.SetPubKey(nil)
			_ = b.SetPubKey(nil)
			// the one permitted change: the split/move sender's own original vesting goes down
			if si.Out.Class == harness.OK {
				switch si.Msg.(type) {
				case *vtypes.MsgSplitVesting, *vtypes.MsgMoveAvailableVesting, *vtypes.MsgMoveAvailableVestingByDenoms:
					ca, oka := a.(*vestingtypes.ContinuousVestingAccount)
					cb, okb := b.(*vestingtypes.ContinuousVestingAccount)
					if oka && okb && cb.OriginalVesting.IsAllLTE(ca.OriginalVesting) {
						cb.OriginalVesting = ca.OriginalVesting
					}
				}
			}
			ba, _ := cdc.MarshalInterface(a)
			bb, _ := cdc.MarshalInterface(b)
			if bytes.Equal(ba, bb) {
				continue
			}
		}
		vs = append(vs, &explore.Violation{Property: "C09", Sig: "C09:account-altered:" + sdk.MsgTypeURL(si.Msg),
			What: fmt.Sprintf("%s (%s) altered the existing account %s: before %T{num=%d seq=%d key=%v}, after %T{num=%d seq=%d key=%v}", si.Ev.Name, si.Out.Key(), addr,
				a, a.GetAccountNumber(), a.GetSequence(), a.GetPubKey() != nil, b, b.GetAccountNumber(), b.GetSequence(), b.GetPubKey() != nil)})
	}
	return si.Aux, vs
}

func runC09(rc *RunCtx) {
	scn := &Scenario{Name: "c09", Genesis: harness.BuildGenesis(c09Genesis()), T0: harness.T0, Events: c09Events(), StepOracle: c09Step,
		ExtraStores: nil}
	depth, budget, maxTraces := 3, 100*time.Second, 1500
	if rc.Thorough() {
		depth, budget, maxTraces = 8, 25*time.Minute, 20000
	}
	runScenarioCheck(rc, scn, depth, budget, maxTraces, "")
	rc.Cov["cfesignature_msgs_at_msg_server_seam"] = true
}
