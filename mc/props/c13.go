package props

import (
	"bytes"
	"fmt"
	banktypes "github.com/cosmos/cosmos-sdk/x/bank/types"
	govtypes "github.com/cosmos/cosmos-sdk/x/gov/types"
	"sort"
	"time"

	"c4emc/explore"
	"c4emc/harness"
	"c4emc/ref"

	dtypes "github.com/chain4energy/c4e-chain/x/cfedistributor/types"
	mtypes "github.com/chain4energy/c4e-chain/x/cfeminter/types"
	vtypes "github.com/chain4energy/c4e-chain/x/cfevesting/types"
	"github.com/cosmos/cosmos-sdk/codec"
	sdk "github.com/cosmos/cosmos-sdk/types"
	authtypes "github.com/cosmos/cosmos-sdk/x/auth/types"
)

func init() { Register(&Check{ID: "C13", Level: "model_checking", Run: runC13}) }

func c13MinterCfg() mintCfg {
	return mintCfg{Periods: []mp{{Kind: ref.Linear, Amount: "1000", End: 30 * time.Second}, {Kind: ref.ExpStep, Amount: "100", Step: 10 * time.Second, Mult: "0.5"}}}
}

func dAcc(a dacc) dtypes.Account { return dtypes.Account{Id: a.ID, Type: a.Type} }

func c13DistParams() dtypes.Params {
	i1 := dAcc(aI1)
	return dtypes.Params{SubDistributors: []dtypes.SubDistributor{
		{Name: "fees", Sources: []*dtypes.Account{{Id: authtypes.FeeCollectorName, Type: dtypes.ModuleAccount}},
			Destinations: dtypes.Destinations{PrimaryShare: i1, BurnShare: sdk.MustNewDecFromStr("0.1"),
				Shares: []*dtypes.DestinationShare{{Name: "dev", Share: sdk.MustNewDecFromStr("0.3"), Destination: dAcc(aU("U2"))}}}},
		{Name: "main", Sources: []*dtypes.Account{{Id: "i1", Type: dtypes.InternalAccount}, {Id: "", Type: dtypes.Main}},
			Destinations: dtypes.Destinations{PrimaryShare: dAcc(aVRC), BurnShare: sdk.ZeroDec(),
				Shares: []*dtypes.DestinationShare{{Name: "boost", Share: sdk.MustNewDecFromStr("0.2"), Destination: dAcc(aMgeb)}}}},
	}}
}

func c13Genesis() harness.Genesis {
	return harness.Genesis{
		Balances: map[string]sdk.Coins{"A": coins(100), "U1": coins(0), "U2": coins(0)},
		Minter:   c13MinterCfg().Genesis(harness.T0),
		Distr:    &dtypes.GenesisState{Params: c13DistParams()},
		Vesting: &vtypes.GenesisState{Params: vtypes.Params{Denom: harness.Denom}, VestingAccountTraces: []vtypes.VestingAccountTrace{},
			VestingTypes: []vtypes.GenesisVestingType{{Name: "t5", LockupPeriod: 5, LockupPeriodUnit: "second", VestingPeriod: 10, VestingPeriodUnit: "second", Free: sdk.NewDecWithPrec(5, 1)}}},
	}
}

type c13Auth struct{ name, addr, signer string }

func c13Auths() []c13Auth {
	return []c13Auth{{"gov", harness.GovAuthority(), ""}, {"user", harness.AddrS("A"), "A"}, {"empty", "", "A"}, {"garbage", "not-an-address", "A"}}
}

type c13Payload struct {
	name string
	mk   func(auth string) sdk.Msg
}

func c13Payloads() []c13Payload {
	minters := func(c mintCfg) []*mtypes.Minter { return c.Params().Minters }
	start := harness.T0
	valid2 := mintCfg{Periods: []mp{{Kind: ref.Linear, Amount: "500", End: 30 * time.Second}, {Kind: ref.NoMint}}}
	valid3 := mintCfg{Periods: []mp{{Kind: ref.Linear, Amount: "1000", End: 30 * time.Second}, {Kind: ref.ExpStep, Amount: "50", Step: 10 * time.Second, Mult: "1", End: 90 * time.Second}, {Kind: ref.NoMint}}}
	linLast := mintCfg{Periods: []mp{{Kind: ref.NoMint, End: 30 * time.Second}, {Kind: ref.Linear, Amount: "5"}}}
	from2 := func() []*mtypes.Minter { // ids {2,3}: valid on its own, lacks id 1
		ms := minters(valid3)[1:]
		return ms
	}
	unordered := func() []*mtypes.Minter {
		ms := minters(valid2)
		return []*mtypes.Minter{ms[1], ms[0]}
	}
	gap := func() []*mtypes.Minter {
		ms := minters(valid3)
		return []*mtypes.Minter{ms[0], ms[2]}
	}
	badEnds := func() []*mtypes.Minter {
		ms := minters(valid3)
		t := harness.T0.Add(10 * time.Second)
		ms[1].EndTime = &t // before the first minter's end
		return ms
	}
	u2 := dAcc(aU("U2"))
	sdMainOK := &dtypes.SubDistributor{Name: "main", Sources: []*dtypes.Account{{Id: "i1", Type: dtypes.InternalAccount}, {Id: "", Type: dtypes.Main}},
		Destinations: dtypes.Destinations{PrimaryShare: u2, BurnShare: sdk.MustNewDecFromStr("0.5")}}
	sdMainBreaks := &dtypes.SubDistributor{Name: "main", Sources: []*dtypes.Account{{Id: harness.AddrS("U1"), Type: dtypes.BaseAccount}},
		Destinations: dtypes.Destinations{PrimaryShare: dAcc(aVRC), BurnShare: sdk.ZeroDec()}}
	sdUnknown := &dtypes.SubDistributor{Name: "nosuch", Sources: []*dtypes.Account{{Id: "", Type: dtypes.Main}},
		Destinations: dtypes.Destinations{PrimaryShare: dAcc(aVRC), BurnShare: sdk.ZeroDec()}}
	fullOK := []dtypes.SubDistributor{{Name: "only", Sources: []*dtypes.Account{{Id: "", Type: dtypes.Main}}, Destinations: dtypes.Destinations{PrimaryShare: dAcc(aVRC), BurnShare: sdk.MustNewDecFromStr("0.01")}}}
	fullBadOrder := []dtypes.SubDistributor{{Name: "m", Sources: []*dtypes.Account{{Id: "", Type: dtypes.Main}}, Destinations: dtypes.Destinations{PrimaryShare: dAcc(aI1), BurnShare: sdk.ZeroDec()}}}
	fullShareSum := []dtypes.SubDistributor{{Name: "m", Sources: []*dtypes.Account{{Id: "", Type: dtypes.Main}}, Destinations: dtypes.Destinations{PrimaryShare: dAcc(aVRC), BurnShare: sdk.MustNewDecFromStr("0.5"),
		Shares: []*dtypes.DestinationShare{{Name: "x", Share: sdk.MustNewDecFromStr("0.5"), Destination: u2}}}}}
	var ps []c13Payload
	mFull := func(name, denom string, st time.Time, ms func() []*mtypes.Minter) {
		ps = append(ps, c13Payload{"minter.UpdateParams(" + name + ")", func(a string) sdk.Msg {
			return &mtypes.MsgUpdateParams{Authority: a, MintDenom: denom, StartTime: st, Minters: ms()}
		}})
	}
	mPart := func(name string, st time.Time, ms func() []*mtypes.Minter) {
		ps = append(ps, c13Payload{"minter.UpdateMinters(" + name + ")", func(a string) sdk.Msg {
			return &mtypes.MsgUpdateMintersParams{Authority: a, StartTime: st, Minters: ms()}
		}})
	}
	mFull("valid2", harness.Denom, start, func() []*mtypes.Minter { return minters(valid2) })
	mFull("denom-change", "newdenom", start, func() []*mtypes.Minter { return minters(valid2) })
	mFull("empty-denom", "", start, func() []*mtypes.Minter { return minters(valid2) })
	mFull("ids-2-3", harness.Denom, start, from2)
	mFull("linear-last", harness.Denom, start, func() []*mtypes.Minter { return minters(linLast) })
	mPart("valid3", start, func() []*mtypes.Minter { return minters(valid3) })
	mPart("valid3-start-later", start.Add(20*time.Second), func() []*mtypes.Minter { return minters(valid3) })
	// a start time moved far into the future (minting pauses), and a configuration that has period 1 only
	mPart("valid3-start-far", start.Add(1000*time.Second), func() []*mtypes.Minter { return minters(valid3) })
	mPart("only-id-1", start, func() []*mtypes.Minter { return minters(mintCfg{Periods: []mp{{Kind: ref.NoMint}}}) })
	// four periods, the third ending before (and exactly when) the second does
	fourBad := func(d time.Duration) func() []*mtypes.Minter {
		return func() []*mtypes.Minter {
			return minters(mintCfg{Periods: []mp{{Kind: ref.Linear, Amount: "1000", End: 30 * time.Second}, {Kind: ref.Linear, Amount: "10", End: 200 * time.Second},
				{Kind: ref.Linear, Amount: "10", End: 200*time.Second + d}, {Kind: ref.NoMint}}})
		}
	}
	mPart("four-third-ends-before-second", start, fourBad(-100*time.Second))
	mPart("four-third-ends-with-second", start, fourBad(0))
	mPart("ids-2-3", start, from2)
	mPart("unordered", start, unordered)
	mPart("gap", start, gap)
	mPart("bad-ends", start, badEnds)
	mPart("none", start, func() []*mtypes.Minter { return nil })
	ps = append(ps,
		c13Payload{"distr.UpdateParams(valid)", func(a string) sdk.Msg { return &dtypes.MsgUpdateParams{Authority: a, SubDistributors: fullOK} }},
		c13Payload{"distr.UpdateParams(bad-order)", func(a string) sdk.Msg { return &dtypes.MsgUpdateParams{Authority: a, SubDistributors: fullBadOrder} }},
		c13Payload{"distr.UpdateParams(share-sum-1)", func(a string) sdk.Msg { return &dtypes.MsgUpdateParams{Authority: a, SubDistributors: fullShareSum} }},
		c13Payload{"distr.UpdateParams(empty)", func(a string) sdk.Msg { return &dtypes.MsgUpdateParams{Authority: a} }},
		c13Payload{"distr.UpdateSub(main-ok)", func(a string) sdk.Msg {
			return &dtypes.MsgUpdateSubDistributorParam{Authority: a, SubDistributor: sdMainOK}
		}},
		c13Payload{"distr.UpdateSub(main-breaks-order)", func(a string) sdk.Msg {
			return &dtypes.MsgUpdateSubDistributorParam{Authority: a, SubDistributor: sdMainBreaks}
		}},
		c13Payload{"distr.UpdateSub(unknown)", func(a string) sdk.Msg {
			return &dtypes.MsgUpdateSubDistributorParam{Authority: a, SubDistributor: sdUnknown}
		}},
	)
	for _, sh := range []struct{ dest, share string }{{"dev", "0.5"}, {"dev", "0.9"}, {"boost", "0.999999999999999999"}, {"nosuch", "0.1"}, {"dev", "0"}} {
		sh := sh
		ps = append(ps, c13Payload{fmt.Sprintf("distr.UpdateShare(%s=%s)", sh.dest, sh.share), func(a string) sdk.Msg {
			return &dtypes.MsgUpdateSubDistributorDestinationShareParam{Authority: a, SubDistributorName: "fees", DestinationName: sh.dest, Share: sdk.MustNewDecFromStr(sh.share)}
		}})
	}
	// two sub-distributors with two named shares each, and partial updates aimed at the second
	// sub-distributor / the second share (replacing the wrong one of two similar objects shows here)
	twoByTwo := c13DistParams().SubDistributors
	twoByTwo[0].Destinations.Shares = append(twoByTwo[0].Destinations.Shares, &dtypes.DestinationShare{Name: "ops", Share: sdk.MustNewDecFromStr("0.1"), Destination: dAcc(aMgeb)})
	twoByTwo[1].Destinations.Shares = append(twoByTwo[1].Destinations.Shares, &dtypes.DestinationShare{Name: "eco", Share: sdk.MustNewDecFromStr("0.1"), Destination: dAcc(aU("U1"))})
	ps = append(ps, c13Payload{"distr.UpdateParams(two-by-two)", func(a string) sdk.Msg { return &dtypes.MsgUpdateParams{Authority: a, SubDistributors: twoByTwo} }})
	for _, sh := range []struct{ sub, dest, share string }{{"main", "boost", "0.4"}, {"main", "eco", "0.15"}, {"fees", "ops", "0.05"}, {"main", "dev", "0.2"}, {"main", "dev", "0.95"}} {
		sh := sh
		ps = append(ps, c13Payload{fmt.Sprintf("distr.UpdateShare(%s/%s=%s)", sh.sub, sh.dest, sh.share), func(a string) sdk.Msg {
			return &dtypes.MsgUpdateSubDistributorDestinationShareParam{Authority: a, SubDistributorName: sh.sub, DestinationName: sh.dest, Share: sdk.MustNewDecFromStr(sh.share)}
		}})
	}
	for _, b := range []struct{ sub, burn string }{{"fees", "0.2"}, {"fees", "0.7"}, {"main", "0.8"}, {"main", "0.5"}, {"nosuch", "0.1"}, {"fees", "1"}} {
		b := b
		ps = append(ps, c13Payload{fmt.Sprintf("distr.UpdateBurn(%s=%s)", b.sub, b.burn), func(a string) sdk.Msg {
			return &dtypes.MsgUpdateSubDistributorBurnShareParam{Authority: a, SubDistributorName: b.sub, BurnShare: sdk.MustNewDecFromStr(b.burn)}
		}})
	}
	for _, d := range []string{"newdenom", harness.Denom, ""} {
		d := d
		ps = append(ps, c13Payload{"vesting.UpdateDenom(" + d + ")", func(a string) sdk.Msg { return &vtypes.MsgUpdateDenomParam{Authority: a, Denom: d} }})
	}
	return ps
}

func c13Events() []Ev {
	evs := []Ev{{Name: "block+1s", Block: time.Second}, {Name: "block+40s", Block: 40 * time.Second},
		{Name: "pool(A,p,10)", Build: func(v View) (sdk.Msg, string) {
			return vtypes.NewMsgCreateVestingPool(harness.AddrS("A"), "p", sdk.NewInt(10), 5*time.Second, "t5"), "A"
		}},
		// ways to empty a pool: the pool record stays, so the denomination must stay too
		{Name: "withdraw(A)", Build: func(v View) (sdk.Msg, string) {
			return vtypes.NewMsgWithdrawAllAvailable(harness.AddrS("A")), "A"
		}},
		{Name: "send(A.p,all->fresh)", Build: func(v View) (sdk.Msg, string) {
			rem, ok := poolRemainder(v, "A", "p")
			_, to := freshAddr(v)
			if !ok || to == "" {
				return nil, ""
			}
			return vtypes.NewMsgSendToVestingAccount(harness.AddrS("A"), to, "p", rem, true), "A"
		}}}
	for _, p := range c13Payloads() {
		for _, a := range c13Auths() {
			p, a := p, a
			// non-gov authorities only for one representative payload per message type would lose the
			// "partially valid + wrong authority" combinations; keep the full product.
			evs = append(evs, Ev{Name: p.name + "@" + a.name, Gov: a.name == "gov", Build: func(v View) (sdk.Msg, string) { return p.mk(a.addr), a.signer }})
		}
	}
	// proposals with two messages whose second fails on execution: x/gov drops the whole branch,
	// so the accepted first update must leave no trace (not in the store and not anywhere else)
	byName := map[string]c13Payload{}
	for _, p := range c13Payloads() {
		byName[p.name] = p
	}
	tooMuch := func(View) []sdk.Msg {
		return []sdk.Msg{banktypes.NewMsgSend(harness.ModAddr(govtypes.ModuleName), harness.Addr("A"), sdk.NewCoins(sdk.NewCoin(harness.Denom, mustInt("1000000000000000000000000"))))}
	}
	for _, pn := range []string{"minter.UpdateParams(valid2)", "distr.UpdateParams(valid)", "vesting.UpdateDenom(newdenom)"} {
		p := byName[pn]
		if p.mk == nil {
			panic("c13: no payload " + pn)
		}
		evs = append(evs, Ev{Name: "proposal[" + pn + "; bank.Send(gov->A, more than gov has)]@gov", Gov: true,
			Build: func(v View) (sdk.Msg, string) { return p.mk(harness.GovAuthority()), "" }, Then: tooMuch})
	}
	return evs
}

type c13Params struct{ minter, distr, vesting []byte }

func c13Read(w *harness.World, ctx sdk.Context) c13Params {
	cdc := w.App.AppCodec()
	mp := w.App.CfeminterKeeper.GetParams(ctx)
	dp := w.App.CfedistributorKeeper.GetParams(ctx)
	vp := w.App.CfevestingKeeper.GetParams(ctx)
	return c13Params{mustMarshal(cdc, &mp), mustMarshal(cdc, &dp), mustMarshal(cdc, &vp)}
}

func mustMarshal(cdc codec.Codec, m codec.ProtoMarshaler) []byte { return cdc.MustMarshal(m) }

func c13Step(si *StepInfo) (interface{}, []*explore.Violation) {
	if si.Ev.Block > 0 {
		return si.Aux, nil
	}
	var vs []*explore.Violation
	bad := func(sig, f string, a ...interface{}) {
		vs = append(vs, &explore.Violation{Property: "C13", Sig: "C13:" + sig + ":" + sdk.MsgTypeURL(si.Msg), What: si.Ev.Name + ": " + fmt.Sprintf(f, a...)})
	}
	w := si.W
	pre, post := c13Read(w, si.Pre), c13Read(w, si.Post)
	changed := !bytes.Equal(pre.minter, post.minter) || !bytes.Equal(pre.distr, post.distr) || !bytes.Equal(pre.vesting, post.vesting)
	var authority string
	isUpdate := true
	switch m := si.Msg.(type) {
	case *mtypes.MsgUpdateParams:
		authority = m.Authority
	case *mtypes.MsgUpdateMintersParams:
		authority = m.Authority
	case *dtypes.MsgUpdateParams:
		authority = m.Authority
	case *dtypes.MsgUpdateSubDistributorParam:
		authority = m.Authority
	case *dtypes.MsgUpdateSubDistributorDestinationShareParam:
		authority = m.Authority
	case *dtypes.MsgUpdateSubDistributorBurnShareParam:
		authority = m.Authority
	case *vtypes.MsgUpdateDenomParam:
		authority = m.Authority
	default:
		isUpdate = false
	}
	ok := si.Out.Class == harness.OK
	if !isUpdate {
		if changed {
			bad("params-changed-by-other-message", "a non-governance message changed module parameters")
		}
		return si.Aux, vs
	}
	if authority != harness.GovAuthority() && ok {
		bad("non-gov-accepted", "update signed by %q was accepted", authority)
	}
	if !ok && changed {
		bad("rejected-but-changed", "the update was rejected (%s) but stored parameters changed", si.Out.Key())
	}
	if ok {
		// accepted => the stored value is the requested one, and nothing else moved
		cdc := w.App.AppCodec()
		switch m := si.Msg.(type) {
		case *mtypes.MsgUpdateParams:
			want := mtypes.Params{MintDenom: m.MintDenom, StartTime: m.StartTime, Minters: m.Minters}
			_ = want.Validate() // sorts like the keeper does
			if !bytes.Equal(post.minter, mustMarshal(cdc, &want)) {
				bad("stored-differs", "stored minter parameters differ from the requested ones")
			}
			if !bytes.Equal(pre.distr, post.distr) || !bytes.Equal(pre.vesting, post.vesting) {
				bad("other-module-changed", "another module's parameters changed")
			}
		case *mtypes.MsgUpdateMintersParams:
			want := w.App.CfeminterKeeper.GetParams(si.Pre)
			want.StartTime, want.Minters = m.StartTime, m.Minters
			_ = want.Validate()
			if !bytes.Equal(post.minter, mustMarshal(cdc, &want)) {
				bad("stored-differs", "stored minter parameters differ from previous denom + requested minters")
			}
		case *dtypes.MsgUpdateParams:
			want := dtypes.Params{SubDistributors: m.SubDistributors}
			if !bytes.Equal(post.distr, mustMarshal(cdc, &want)) {
				bad("stored-differs", "stored distributor parameters differ from the requested ones")
			}
		case *dtypes.MsgUpdateSubDistributorParam:
			want := w.App.CfedistributorKeeper.GetParams(si.Pre)
			for i := range want.SubDistributors {
				if want.SubDistributors[i].Name == m.SubDistributor.Name {
					want.SubDistributors[i] = *m.SubDistributor
				}
			}
			if !bytes.Equal(post.distr, mustMarshal(cdc, &want)) {
				bad("stored-differs", "stored distributor parameters differ from previous with the sub-distributor replaced")
			}
		case *dtypes.MsgUpdateSubDistributorBurnShareParam:
			want := w.App.CfedistributorKeeper.GetParams(si.Pre)
			for i := range want.SubDistributors {
				if want.SubDistributors[i].Name == m.SubDistributorName {
					want.SubDistributors[i].Destinations.BurnShare = m.BurnShare
				}
			}
			if !bytes.Equal(post.distr, mustMarshal(cdc, &want)) {
				bad("stored-differs", "stored distributor parameters differ from previous with the burn share replaced")
			}
		case *dtypes.MsgUpdateSubDistributorDestinationShareParam:
			want := w.App.CfedistributorKeeper.GetParams(si.Pre)
			for i := range want.SubDistributors {
				for j := range want.SubDistributors[i].Destinations.Shares {
					if want.SubDistributors[i].Destinations.Shares[j].Name == m.DestinationName {
						want.SubDistributors[i].Destinations.Shares[j].Share = m.Share
					}
				}
			}
			if !bytes.Equal(post.distr, mustMarshal(cdc, &want)) {
				bad("stored-differs", "stored distributor parameters differ from previous with the share replaced")
			}
		case *vtypes.MsgUpdateDenomParam:
			if w.App.CfevestingKeeper.GetParams(si.Post).Denom != m.Denom {
				bad("stored-differs", "stored vesting denom differs from the requested one")
			}
		}
	}
	// the vesting denomination cannot change while pools exist
	if len(w.App.CfevestingKeeper.GetAllAccountVestingPools(si.Pre)) > 0 && !bytes.Equal(pre.vesting, post.vesting) {
		bad("denom-changed-with-pools", "the vesting denomination changed although pools exist")
	}
	return si.Aux, vs
}

func c13State(w *harness.World, ctx sdk.Context, aux interface{}) []*explore.Violation {
	var vs []*explore.Violation
	bad := func(sig, f string, a ...interface{}) {
		vs = append(vs, &explore.Violation{Property: "C13", Sig: "C13:" + sig, What: fmt.Sprintf(f, a...)})
	}
	mp := w.App.CfeminterKeeper.GetParams(ctx)
	if err := mp.Validate(); err != nil {
		bad("stored-minter-invalid", "stored minter parameters do not validate: %v", err)
	}
	// the same rules stated independently of the module's own validator (an oracle must not rely on the
	// books of the code under test): ids consecutive and positive, every period but the last has an end,
	// the last has none, every end lies after the previous end (the first after the start time)
	if why := refMintersInvalid(mp); why != "" {
		bad("stored-minter-invalid", "stored minter parameters break the validation rules: %s", why)
	}
	if !mp.ContainsMinter(w.App.CfeminterKeeper.GetMinterState(ctx).SequenceId) {
		bad("current-period-missing", "the minter's current period %d is not in the stored configuration", w.App.CfeminterKeeper.GetMinterState(ctx).SequenceId)
	}
	if err := w.App.CfedistributorKeeper.GetParams(ctx).Validate(); err != nil {
		bad("stored-distributor-invalid", "stored distributor parameters do not validate: %v", err)
	}
	if err := w.App.CfevestingKeeper.GetParams(ctx).Validate(); err != nil {
		bad("stored-vesting-invalid", "stored vesting parameters do not validate: %v", err)
	}
	return vs
}

func refMintersInvalid(p mtypes.Params) string {
	if len(p.Minters) == 0 {
		return "no minters"
	}
	ms := append([]*mtypes.Minter{}, p.Minters...)
	sort.Slice(ms, func(i, j int) bool { return ms[i].SequenceId < ms[j].SequenceId })
	prev := p.StartTime
	for i, m := range ms {
		if m.SequenceId == 0 || (i > 0 && m.SequenceId != ms[i-1].SequenceId+1) {
			return fmt.Sprintf("ids are not positive and consecutive at position %d", i)
		}
		last := i == len(ms)-1
		if last {
			if m.EndTime != nil {
				if _, err := m.GetMinterConfig(); err == nil {
					// an end on the last period is tolerated by the module only for some types; not judged here
				}
			}
			continue
		}
		if m.EndTime == nil {
			return fmt.Sprintf("period %d has no end although it is not the last", m.SequenceId)
		}
		if !m.EndTime.After(prev) {
			return fmt.Sprintf("period %d ends at %s, not after its start %s", m.SequenceId, m.EndTime.UTC().Format(time.RFC3339), prev.UTC().Format(time.RFC3339))
		}
		prev = *m.EndTime
	}
	return ""
}

func runC13(rc *RunCtx) {
	scn := &Scenario{Name: "c13", Genesis: harness.BuildGenesis(c13Genesis()), T0: harness.T0, Events: c13Events(), StepOracle: c13Step, StateOracle: c13State, BlockPanicProperty: ""}
	depth, budget, maxTraces := 5, 100*time.Second, 1500
	if rc.Thorough() {
		depth, budget, maxTraces = 6, 25*time.Minute, 20000
	}
	runScenarioCheck(rc, scn, depth, budget, maxTraces, "")
	agree, total := govPathAgreement(rc, scn.Genesis, c13Payloads())
	rc.Cov["gov_payloads_also_run_through_a_real_proposal"] = total
	rc.Cov["gov_payloads_agreeing_with_the_shortcut"] = agree
}
