package props

import (
	"fmt"
	"math/big"
	"sync"
	"sync/atomic"
	"time"

	"c4emc/explore"
	"c4emc/harness"
	"c4emc/ref"

	cfeminter "github.com/chain4energy/c4e-chain/x/cfeminter"
	mtypes "github.com/chain4energy/c4e-chain/x/cfeminter/types"
	sdk "github.com/cosmos/cosmos-sdk/types"
)

func init() { Register(&Check{ID: "C19", Level: "exploration", Run: runC19}) }

const c19Denom = "umint"
const yearD = 365 * 24 * time.Hour

func c19Types() []mp {
	out := []mp{{Kind: ref.NoMint}}
	for _, a := range []string{"7", "1000003", "1000000000000000000000007"} {
		out = append(out, mp{Kind: ref.Linear, Amount: a})
	}
	for _, a := range []string{"1000", "40000000000000", "1000000000000000000000007"} {
		for _, s := range []time.Duration{10 * time.Second, 4 * yearD} {
			for _, m := range []string{"0.5", "1", "0.333333333333333333", "0.9", "0", "0.000000000000000001"} {
				out = append(out, mp{Kind: ref.ExpStep, Amount: a, Step: s, Mult: m})
			}
		}
	}
	return out
}

func c19Len(p mp, variant int) time.Duration {
	switch {
	case p.Kind == ref.ExpStep && p.Step > time.Hour:
		return 6 * yearD // ends mid-step
	case p.Kind == ref.ExpStep:
		return 25 * time.Second
	case variant == 1:
		return 10 * yearD
	}
	return 25 * time.Second
}

func c19Configs(thorough bool) []mintCfg {
	ts := c19Types()
	last := nonLinear(ts)
	var out []mintCfg
	for _, st := range []time.Duration{0, 3 * time.Second} {
		for _, t := range last {
			out = append(out, mintCfg{Start: st, Periods: []mp{t}, Denom: c19Denom})
		}
		for _, v := range []int{0, 1} {
			for _, t1 := range ts {
				if v == 1 && t1.Kind != ref.Linear {
					continue
				}
				for _, t2 := range last {
					out = append(out, mintCfg{Start: st, Periods: []mp{withEnd(t1, st+c19Len(t1, v)), t2}, Denom: c19Denom})
				}
			}
		}
	}
	// linear periods whose length is not a whole number of seconds (90.5 s, 1.5 s) and a start with a
	// sub-second part
	for _, st := range []time.Duration{0, 250 * time.Millisecond} {
		for _, ln := range []time.Duration{90*time.Second + 500*time.Millisecond, 1500 * time.Millisecond} {
			for _, a := range []string{"1000003", "90500000"} {
				out = append(out, mintCfg{Start: st, Periods: []mp{withEnd(mp{Kind: ref.Linear, Amount: a}, st+ln), {Kind: ref.NoMint}}, Denom: c19Denom})
				out = append(out, mintCfg{Start: st, Periods: []mp{withEnd(mp{Kind: ref.NoMint}, st+3*time.Second), withEnd(mp{Kind: ref.Linear, Amount: a}, st+3*time.Second+ln), {Kind: ref.NoMint}}, Denom: c19Denom})
			}
		}
	}
	if thorough {
		red := []mp{ts[0], ts[2], ts[5], ts[12], ts[20]}
		for _, t1 := range red {
			for _, t2 := range ts {
				for _, t3 := range nonLinear(red) {
					e1 := c19Len(t1, 0)
					out = append(out, mintCfg{Periods: []mp{withEnd(t1, e1), withEnd(t2, e1+c19Len(t2, 1)), t3}, Denom: c19Denom})
				}
			}
		}
	}
	return out
}

// instants at which inflation is read: all millisecond aligned.
func c19Instants(c mintCfg) []time.Duration {
	var out []time.Duration
	add := func(d time.Duration) {
		if d <= 0 {
			return
		}
		for _, x := range out {
			if x == d {
				return
			}
		}
		out = append(out, d)
	}
	if c.Start > 0 {
		add(c.Start - time.Second)
	}
	add(c.Start)
	ps := c.Start
	for _, p := range c.Periods {
		unit := 10 * time.Second
		if p.Kind == ref.ExpStep {
			unit = p.Step
		} else if p.End != 0 {
			unit = (p.End - ps) / 3
		}
		ds := []time.Duration{time.Millisecond, unit / 2, unit, unit * 5 / 2}
		if p.Kind == ref.ExpStep && p.End == 0 && p.Step <= time.Hour {
			// an old schedule: many steps into an open-ended exponential period
			ds = append(ds, unit*129/2, unit*131/2, unit*301/2)
		}
		for _, d := range ds {
			if p.End == 0 || ps+d < p.End {
				add(ps + d)
			}
		}
		if p.End != 0 {
			add(p.End - time.Millisecond)
			add(p.End)
			ps = p.End
		}
	}
	add(ps + 3*time.Second)
	return out
}

func runC19(rc *RunCtx) {
	cfgs := c19Configs(rc.Thorough())
	// supply 0: a mint denomination nobody holds yet; the ratio is undefined there, so only the
	// absence of a crash and the agreement of event and query are demanded
	supplies := []string{"0", "1", "1000000", "1000000000007", "1000000000000000000000000000000"}
	deltas := []time.Duration{time.Millisecond, time.Second, time.Hour}
	genesis := harness.BuildGenesis(harness.Genesis{})
	worlds := make([]*harness.World, rc.Workers)
	var evals, nontrivial, intervalChecks, zeroCases int64
	var mu sync.Mutex
	var samples []interface{}
	seenNT := map[string]bool{}
	ParallelFor(rc.Workers, len(cfgs), func(wk, ci int) {
		if worlds[wk] == nil {
			worlds[wk] = harness.NewWorld(genesis, harness.T0)
		}
		w := worlds[wk]
		cfg := cfgs[ci]
		params := cfg.Params()
		if params.Validate() != nil {
			return
		}
		sched := cfg.Schedule()
		k := w.App.CfeminterKeeper
		for _, sup := range supplies {
			base := harness.Branch(w.Root())
			if err := k.SetParams(base, params); err != nil {
				continue
			}
			k.SetMinterState(base, cfg.freshState(harness.T0))
			if sup != "0" {
				if err := w.App.BankKeeper.MintCoins(base, mtypes.ModuleName, sdk.NewCoins(sdk.NewCoin(c19Denom, mustInt(sup)))); err != nil {
					panic(err)
				}
			}
			for _, at := range c19Instants(cfg) {
				if rc.Expired() {
					return
				}
				for _, via := range []time.Duration{0, time.Millisecond} { // reach T directly, or through a block just before it
					c := harness.Branch(base)
					if via > 0 && at > via {
						c = stepMint(w, c, harness.T0.Add(at-via))
					}
					T := harness.T0.Add(at)
					report0 := func(sig, f string, a ...interface{}) {
						rc.Violate(&explore.Violation{Property: "C19", Sig: "C19:" + sig, What: fmt.Sprintf("%s supply0=%s at +%s: ", cfg, sup, at) + fmt.Sprintf(f, a...),
							Detail: map[string]interface{}{"config": cfg, "supply": sup, "at": at, "via": via}})
					}
					var crashed interface{}
					func() {
						defer func() { crashed = recover() }()
						c = stepMint(w, c, T)
					}()
					if crashed != nil {
						report0("block-panics", "the minter's BeginBlocker (which computes the reported inflation) panicked: %v", crashed)
						continue
					}
					evs := c.EventManager().ABCIEvents()
					mintEv := harness.EventsOfType(evs, "chain4energy.c4echain.cfeminter.Mint")
					atomic.AddInt64(&evals, 1)
					report := func(sig, f string, a ...interface{}) {
						rc.Violate(&explore.Violation{Property: "C19", Sig: "C19:" + sig, What: fmt.Sprintf("%s supply0=%s at +%s: ", cfg, sup, at) + fmt.Sprintf(f, a...),
							Detail: map[string]interface{}{"config": cfg, "supply": sup, "at": at, "via": via}})
					}
					qr, err := k.Inflation(sdk.WrapSDKContext(c), &mtypes.QueryInflationRequest{})
					if err != nil {
						report("query-error", "Inflation query failed: %v", err)
						continue
					}
					if len(mintEv) != 1 {
						report("mint-event-count", "expected one Mint event, got %d", len(mintEv))
					} else if s, _ := harness.Attr(mintEv[0], "inflation"); s != qr.Inflation.String() {
						report("event-vs-query", "Mint event reports inflation %s, query %s", s, qr.Inflation)
					}
					supply := w.App.BankKeeper.GetSupply(c, c19Denom).Amount
					if supply.IsZero() {
						continue // rate / supply is undefined
					}
					R := sched.RatePerYear(T)
					want := new(big.Rat).Quo(R, new(big.Rat).SetInt(supply.BigInt()))
					got := ratOfDec(qr.Inflation)
					tol := c19Tol(sched, T, supply.BigInt())
					diff := new(big.Rat).Sub(got, want)
					diff.Abs(diff)
					if diff.Cmp(tol) > 0 {
						report("inflation-value", "reported inflation %s, annualised rate/supply = %s (rate %s, supply %s)", qr.Inflation, want.FloatString(20), R.FloatString(3), supply)
					}
					if R.Sign() == 0 {
						atomic.AddInt64(&zeroCases, 1)
						if !qr.Inflation.IsZero() {
							report("nonzero-when-no-emission", "reported inflation %s although nothing is being emitted", qr.Inflation)
						}
					} else {
						atomic.AddInt64(&nontrivial, 1)
						key := fmt.Sprintf("%d/%s/%s", ci, sup, at)
						mu.Lock()
						seenNT[key] = true
						mu.Unlock()
					}
					// what is actually minted over a short interval inside the same step
					for _, d := range deltas {
						if !sameStep(sched, T, T.Add(d)) {
							continue
						}
						c2 := stepMint(w, harness.Branch(c), T.Add(d))
						minted := w.App.BankKeeper.GetSupply(c2, c19Denom).Amount.Sub(supply)
						exp := new(big.Rat).Mul(R, new(big.Rat).SetFrac64(int64(d), int64(yearD)))
						df := new(big.Rat).Sub(new(big.Rat).SetInt(minted.BigInt()), exp)
						df.Abs(df)
						_, eb := sched.Cumulative(T.Add(d))
						lim := new(big.Rat).Add(big.NewRat(1, 1), new(big.Rat).Mul(eb, big.NewRat(2, 1)))
						atomic.AddInt64(&intervalChecks, 1)
						if df.Cmp(lim) >= 0 {
							report("interval-mint", "minted %s over %s, rate*interval/year = %s", minted, d, exp.FloatString(6))
						}
					}
				}
			}
		}
		if ci%211 == 0 {
			mu.Lock()
			samples = append(samples, map[string]interface{}{"config": cfg.String(), "instants": durs(c19Instants(cfg)), "supplies": supplies})
			mu.Unlock()
		}
	})
	rc.Level = "exploration"
	rc.Cov = map[string]interface{}{
		"evaluations": int(evals), "distinct_nontrivial": len(seenNT),
		"rule":    "every (configuration, initial supply, millisecond-aligned instant, direct / via a block 1ms earlier) of the product alphabet; the real minter BeginBlocker runs at the instant and the Inflation query and Mint event are read in the state it leaves. Non-trivial = distinct (configuration, supply, instant) at which the schedule is emitting (rate > 0).",
		"samples": samples, "configurations": len(cfgs), "interval_checks": int(intervalChecks), "zero_rate_cases": int(zeroCases),
		"nontrivial_evaluations": int(nontrivial), "exhaustive": true,
	}
	rc.Assume = []string{"tolerance = fixed-point error bound derived from the operation count (k roundings amplified by year/step, two truncations)", "reported inflation is evaluated only in states left by the real BeginBlocker"}
}

// stepMint opens a block at time t on ctx (in place) and runs the real minter BeginBlocker.
func stepMint(w *harness.World, c sdk.Context, t time.Time) sdk.Context {
	hdr := c.BlockHeader()
	hdr.Time = t
	hdr.Height++
	c = c.WithBlockHeader(hdr).WithEventManager(sdk.NewEventManager())
	cfeminter.BeginBlocker(c, w.App.CfeminterKeeper)
	return c
}

func sameStep(s ref.Schedule, a, b time.Time) bool {
	if a.Before(s.Start) != b.Before(s.Start) {
		return false
	}
	if b.Before(s.Start) {
		return true
	}
	ia, sa := s.Current(a)
	ib, _ := s.Current(b)
	if ia != ib {
		return false
	}
	p := s.Periods[ia]
	if p.Kind == ref.ExpStep {
		return int64(a.Sub(sa))/int64(p.Step) == int64(b.Sub(sa))/int64(p.Step)
	}
	return true
}

// c19Tol: sound bound on |fixed-point inflation - exact|.
func c19Tol(s ref.Schedule, t time.Time, supply *big.Int) *big.Rat {
	u := big.NewRat(1, 1000000000000000000)
	tol := new(big.Rat).Mul(u, big.NewRat(2, 1))
	if t.Before(s.Start) {
		return tol
	}
	i, ps := s.Current(t)
	p := s.Periods[i]
	if p.Kind == ref.ExpStep {
		k := int64(t.Sub(ps)) / int64(p.Step)
		amp := new(big.Rat).SetFrac64(int64(yearD), int64(p.Step))
		e := new(big.Rat).Mul(u, new(big.Rat).SetInt64(k+1))
		e.Mul(e, amp)
		e.Quo(e, new(big.Rat).SetInt(supply))
		tol.Add(tol, e)
	}
	return tol
}
