package props

import (
	"bytes"
	"fmt"
	"time"

	"c4emc/explore"
	"c4emc/harness"

	sdk "github.com/cosmos/cosmos-sdk/types"
	govv1 "github.com/cosmos/cosmos-sdk/x/gov/types/v1"
)

// govPathAgreement binds the "executed the way x/gov executes it" shortcut (router handler on a
// cache branch) to the real thing: every authority payload is also sent through a real proposal
// (submitted and voted with signed transactions, executed by gov's EndBlocker after the voting
// period) and the verdict and the resulting parameters of all three modules must agree.
func govPathAgreement(rc *RunCtx, genesis []byte, payloads []c13Payload) (int, int) {
	agree, total := 0, 0
	type res struct {
		ok     bool
		params c13Params
		note   string
	}
	results := make([][2]res, len(payloads))
	ParallelFor(rc.Workers, len(payloads), func(_ int, i int) {
		p := payloads[i]
		msg := p.mk(harness.GovAuthority())
		// shortcut
		{
			n := harness.NewNode(genesis, harness.T0)
			out := n.GovExec(msg)
			results[i][0] = res{ok: out.Class == harness.OK, params: c13Read(n.World, n.Ctx()), note: out.Key()}
		}
		// real proposal
		{
			n := harness.NewNode(genesis, harness.T0)
			r := res{}
			func() {
				defer func() {
					if x := recover(); x != nil {
						r.note = fmt.Sprintf("panic: %v", x)
					}
				}()
				sub, err := govv1.NewMsgSubmitProposal([]sdk.Msg{msg}, coins(1), harness.AddrS("A"), "")
				if err != nil {
					r.note = "cannot build proposal: " + err.Error()
					return
				}
				o := n.DeliverMsg(sub, "A", nil)
				if o.Class != harness.OK {
					// gov refuses proposals whose messages fail basic validation or have no handler
					r.note = "submit rejected: " + o.Key()
					r.params = c13Read(n.World, n.Ctx())
					return
				}
				ids := n.App.GovKeeper.GetProposals(n.Ctx())
				if len(ids) == 0 {
					r.note = "no proposal stored"
					return
				}
				pid := ids[len(ids)-1].Id
				if o := n.DeliverMsg(govv1.NewMsgVote(harness.Addr("genesis-delegator"), pid, govv1.OptionYes, ""), "genesis-delegator", nil); o.Class != harness.OK {
					r.note = "vote rejected: " + o.Log
					return
				}
				n.NextBlock(3 * time.Second) // the EndBlock of the first block at/after the voting end executes it
				n.NextBlock(time.Second)
				prop, found := n.App.GovKeeper.GetProposal(n.Ctx(), pid)
				if !found {
					r.note = "proposal vanished"
					return
				}
				r.ok = prop.Status == govv1.StatusPassed
				r.note = prop.Status.String()
				r.params = c13Read(n.World, n.Ctx())
			}()
			results[i][1] = r
		}
	})
	for i, p := range payloads {
		a, b := results[i][0], results[i][1]
		total++
		same := a.ok == b.ok && bytes.Equal(a.params.minter, b.params.minter) && bytes.Equal(a.params.distr, b.params.distr) && bytes.Equal(a.params.vesting, b.params.vesting)
		if same {
			agree++
			continue
		}
		rc.MachineryError = true
		rc.Notes = append(rc.Notes, fmt.Sprintf("gov path disagreement for %s: shortcut %s (ok=%v), real proposal %s (ok=%v)", p.name, a.note, a.ok, b.note, b.ok))
		rc.Logf("GOV PATH DISAGREEMENT %s: shortcut %s, proposal %s", p.name, a.note, b.note)
	}
	_ = explore.Violation{}
	return agree, total
}
