package props

import (
	"bytes"
	"encoding/binary"
	"encoding/json"
	"fmt"
	dv1 "github.com/chain4energy/c4e-chain/x/cfedistributor/migrations/v1"
	"github.com/cosmos/cosmos-sdk/codec"
	paramstypes "github.com/cosmos/cosmos-sdk/x/params/types"
	"math/big"
	"runtime/debug"
	"sync"
	"sync/atomic"
	"time"

	"c4emc/explore"
	"c4emc/harness"
	"c4emc/ref"

	v120 "github.com/chain4energy/c4e-chain/app/upgrades/v120"
	dtypes "github.com/chain4energy/c4e-chain/x/cfedistributor/types"
	mtypes "github.com/chain4energy/c4e-chain/x/cfeminter/types"
	sigtypes "github.com/chain4energy/c4e-chain/x/cfesignature/types"
	v2 "github.com/chain4energy/c4e-chain/x/cfevesting/migrations/v2"
	vtypes "github.com/chain4energy/c4e-chain/x/cfevesting/types"
	"github.com/cosmos/cosmos-sdk/store/prefix"
	sdk "github.com/cosmos/cosmos-sdk/types"
	authtypes "github.com/cosmos/cosmos-sdk/x/auth/types"
	vestingtypes "github.com/cosmos/cosmos-sdk/x/auth/vesting/types"
	stakingtypes "github.com/cosmos/cosmos-sdk/x/staking/types"
	upgradetypes "github.com/cosmos/cosmos-sdk/x/upgrade/types"
)

func init() { Register(&Check{ID: "C16", Level: "exploration", Run: runC16}) }

const c16Sum = int64(72_000_000) * 1_000_000 // what the upgrade moves out of the validators pool

type c16Pool struct {
	Name, Type              string
	Locked, Sent, Withdrawn int64
}

type c16Case struct {
	DistrV1      bool      // the distributor is still at module version 1: parameters stored in the format before v1.1.0 (percentages)
	OwnerPools   []c16Pool // pools of the hard-coded owner, in store order (nil: owner has no record)
	OtherPools   []c16Pool // pools of a second owner
	ValidatorsVT bool      // vesting type "Validators" exists
	Accounts     [4]string // absent | base | cont | cont-delegated | delayed
	Minter       int       // index into c16Minters
	Distr        int       // index into c16Distrs
	Label        string
}

func c16Minters() []mintCfg {
	return []mintCfg{
		{Periods: []mp{{Kind: ref.NoMint}}},
		{Periods: []mp{{Kind: ref.ExpStep, Amount: "40000000000000", Step: 4 * yearD, Mult: "0.5"}}},
		{Periods: []mp{{Kind: ref.Linear, Amount: "1000000", End: 30 * time.Second}, {Kind: ref.NoMint}}},
		{Start: -100 * time.Second, Periods: []mp{{Kind: ref.Linear, Amount: "7", End: 30 * time.Second}, {Kind: ref.ExpStep, Amount: "1000003", Step: 10 * time.Second, Mult: "0.333333333333333333", End: 95 * time.Second}, {Kind: ref.NoMint}}},
		{Periods: []mp{{Kind: ref.NoMint, End: 50 * time.Second}, {Kind: ref.ExpStep, Amount: "100", Step: time.Second, Mult: "1"}}},
		{Periods: []mp{{Kind: ref.ExpStep, Amount: "9", Step: 7 * time.Second, Mult: "0", End: 20 * time.Second}, {Kind: ref.Linear, Amount: "0", End: 40 * time.Second}, {Kind: ref.NoMint}}},
		// the upgrade happens after one / two periods have already ended
		{Start: -200 * time.Second, Periods: []mp{{Kind: ref.Linear, Amount: "1000", End: -100 * time.Second}, {Kind: ref.ExpStep, Amount: "1000003", Step: 10 * time.Second, Mult: "0.5", End: 60 * time.Second}, {Kind: ref.NoMint}}},
		{Start: -300 * time.Second, Periods: []mp{{Kind: ref.ExpStep, Amount: "100", Step: 30 * time.Second, Mult: "0.5", End: -200 * time.Second}, {Kind: ref.NoMint, End: -1 * time.Second}, {Kind: ref.Linear, Amount: "777", End: 50 * time.Second}, {Kind: ref.ExpStep, Amount: "40000000000000", Step: 4 * yearD, Mult: "0.5"}}},
	}
}

func (c mintCfg) LegacyParams() mtypes.LegacyParams {
	lp := mtypes.LegacyParams{MintDenom: harness.Denom, MinterConfig: mtypes.MinterConfig{StartTime: harness.T0.Add(c.Start)}}
	for i, per := range c.Periods {
		m := &mtypes.LegacyMinter{SequenceId: uint32(i + 1)}
		switch per.Kind {
		case ref.NoMint:
			m.Type = mtypes.NoMintingType
		case ref.Linear:
			m.Type = mtypes.LinearMintingType
			m.LinearMinting = &mtypes.LinearMinting{Amount: mustInt(per.Amount)}
		case ref.ExpStep:
			m.Type = mtypes.ExponentialStepMintingType
			m.ExponentialStepMinting = &mtypes.ExponentialStepMinting{Amount: mustInt(per.Amount), StepDuration: per.Step, AmountMultiplier: sdk.MustNewDecFromStr(per.Mult)}
		}
		if per.End != 0 {
			t := harness.T0.Add(per.End)
			m.EndTime = &t
		}
		lp.MinterConfig.Minters = append(lp.MinterConfig.Minters, m)
	}
	return lp
}

// scheduleOfParams turns stored (new format) minter parameters into the reference schedule.
func scheduleOfParams(p mtypes.Params) (ref.Schedule, error) {
	s := ref.Schedule{Start: p.StartTime}
	for _, m := range p.Minters {
		cfg, err := m.GetMinterConfig()
		if err != nil {
			return s, err
		}
		per := ref.Period{End: m.EndTime}
		switch c := cfg.(type) {
		case *mtypes.NoMinting:
			per.Kind = ref.NoMint
		case *mtypes.LinearMinting:
			per.Kind, per.Amount = ref.Linear, c.Amount.BigInt()
		case *mtypes.ExponentialStepMinting:
			per.Kind, per.Amount, per.Step, per.Mult = ref.ExpStep, c.Amount.BigInt(), c.StepDuration, ratOfDec(c.AmountMultiplier)
		default:
			return s, fmt.Errorf("unknown config %T", cfg)
		}
		s.Periods = append(s.Periods, per)
	}
	return s, nil
}

func c16Distrs() []dtypes.Params {
	return []dtypes.Params{
		harness.DefaultDistrGenesis().Params,
		c13DistParams(),
		dcfg{{Sources: []dacc{aMfee}, Primary: aMAIN, Shares: []dshare{{aU("U2"), "0.5"}}, Burn: "0.01"}, {Sources: []dacc{aMAIN}, Primary: aVRC, Burn: "0.5"}}.Params(),
		distChains()[0].Params(),
		// shares and burn share below one percent
		dcfg{{Sources: []dacc{aMAIN}, Primary: aVRC, Shares: []dshare{{aU("U2"), "0.005"}, {aMgeb, "0.19"}}, Burn: "0.0025"}}.Params(),
	}
}

// c16DistrV1JSON renders new-format sub-distributors in the version-1 format (shares in percent), as the
// legacy amino JSON the 1 -> 2 migration reads from the parameter store.
func c16DistrV1JSON(p dtypes.Params) []byte {
	var old []dv1.SubDistributor
	hundred := sdk.NewDec(100)
	for _, sd := range p.SubDistributors {
		o := dv1.SubDistributor{Name: sd.Name, Destination: dv1.Destination{Account: dv1.Account{Id: sd.Destinations.PrimaryShare.Id, Type: sd.Destinations.PrimaryShare.Type},
			BurnShare: &dv1.BurnShare{Percent: sd.Destinations.BurnShare.Mul(hundred)}}}
		for _, src := range sd.Sources {
			o.Sources = append(o.Sources, &dv1.Account{Id: src.Id, Type: src.Type})
		}
		for _, sh := range sd.Destinations.Shares {
			o.Destination.Share = append(o.Destination.Share, &dv1.Share{Name: sh.Name, Percent: sh.Share.Mul(hundred), Account: dv1.Account{Id: sh.Destination.Id, Type: sh.Destination.Type}})
		}
		old = append(old, o)
	}
	bz, err := codec.NewLegacyAmino().MarshalJSON(old)
	if err != nil {
		panic(err)
	}
	return bz
}

var c16Owner = v120.ValidatorsVestingPoolOwner
var c16HardAccounts = []string{v120.Account1, v120.Account2, v120.Account3, v120.Account4}

const (
	c16ListedGenesis  = "c4e1z5h0squtynr8rhwl0mzqdcd0wgmfyvpqmx3y2r"
	c16ListedFromPool = "c4e13e303u43k7mng4927axuhve0plgsyxc4xky63k"
)

func c16Cases(thorough bool) []c16Case {
	var out []c16Case
	vHist := [][2]int64{{0, 0}, {5_000_000, 7_000_000}}
	var vVariants []c16Pool
	for _, cur := range []int64{0, c16Sum - 1, c16Sum, c16Sum + 1, 2 * c16Sum} {
		for _, h := range vHist {
			vVariants = append(vVariants, c16Pool{Name: "Validators pool", Type: "Validators", Locked: cur + h[0] + h[1], Sent: h[0], Withdrawn: h[1]})
		}
	}
	adv := c16Pool{Name: "Advisors pool", Type: "Advisors", Locked: 1000, Sent: 100, Withdrawn: 50}
	oth := c16Pool{Name: "Other pool", Type: "Validators", Locked: 500, Sent: 1, Withdrawn: 2}
	var ownerSets [][]c16Pool
	ownerSets = append(ownerSets, nil, []c16Pool{adv}, []c16Pool{oth}, []c16Pool{adv, oth})
	for _, v := range vVariants {
		ownerSets = append(ownerSets, []c16Pool{v}, []c16Pool{adv, v}, []c16Pool{v, oth}, []c16Pool{oth, v, adv})
	}
	// the owner may already hold pools named like the pools the split creates
	vc := c16Pool{Name: "VC round pool", Type: "Advisors", Locked: 900, Sent: 30, Withdrawn: 20}
	pub := c16Pool{Name: "Public round pool", Type: "Validators", Locked: 2_100_000_000_000, Sent: 0, Withdrawn: 0}
	for _, v := range vVariants {
		ownerSets = append(ownerSets, []c16Pool{vc, v}, []c16Pool{v, pub, vc})
	}
	otherSets := [][]c16Pool{nil, {{Name: "p2", Type: "Validators", Locked: 300, Sent: 10, Withdrawn: 20}}}
	accKinds := [][4]string{
		{"absent", "absent", "absent", "absent"}, {"base", "base", "base", "base"}, {"cont", "cont", "cont", "cont"},
		{"cont-delegated", "cont-delegated", "cont-delegated", "cont-delegated"}, {"delayed", "delayed", "delayed", "delayed"},
		{"cont", "absent", "delayed", "cont-delegated"}, {"base", "cont-delegated", "cont", "absent"},
		{"cont-dst", "cont", "cont-dst", "absent"},
	}
	nm, nd := len(c16Minters()), len(c16Distrs())
	add := func(op, o2 []c16Pool, vt bool, acc [4]string, mi, di int) {
		out = append(out, c16Case{OwnerPools: op, OtherPools: o2, ValidatorsVT: vt, Accounts: acc, Minter: mi, Distr: di})
	}
	for _, op := range ownerSets {
		for _, o2 := range otherSets {
			for _, vt := range []bool{true, false} {
				if thorough {
					// the full product: pool layout x other owner x vesting type x accounts x minter x distributor
					for _, acc := range accKinds {
						for mi := 0; mi < nm; mi++ {
							for di := 0; di < nd; di++ {
								add(op, o2, vt, acc, mi, di)
							}
						}
					}
				} else {
					add(op, o2, vt, accKinds[5], 1, 1)
				}
			}
		}
	}
	// parameters and accounts are independent of the pools: their full product on one pool layout
	for mi := 0; mi < nm; mi++ {
		for di := 0; di < nd; di++ {
			for _, acc := range accKinds {
				add(ownerSets[8], otherSets[1], true, acc, mi, di)
			}
		}
	}
	// a chain whose distributor is still at module version 1 (the upgrade then also runs the 1 -> 2 migration)
	for di := 0; di < nd; di++ {
		c := c16Case{OwnerPools: ownerSets[8], OtherPools: otherSets[1], ValidatorsVT: true, Accounts: accKinds[5], Minter: 1, Distr: di, DistrV1: true}
		out = append(out, c)
	}
	for i := range out {
		out[i].Label = fmt.Sprintf("case#%d", i)
	}
	return out
}

func c16Genesis() []byte {
	raw := harness.BuildGenesis(harness.Genesis{})
	var gs map[string]json.RawMessage
	if err := json.Unmarshal(raw, &gs); err != nil {
		panic(err)
	}
	delete(gs, "interchainaccounts") // the module is added by the upgrade
	bz, _ := json.Marshal(gs)
	return bz
}

type c16Stats struct {
	cases, splitDone, splitSkipped, shifted int64
}

func toV2(ps []c16Pool, t0 time.Time) []*v2.VestingPool {
	var out []*v2.VestingPool
	for _, p := range ps {
		out = append(out, &v2.VestingPool{Name: p.Name, VestingType: p.Type, LockStart: t0.Add(-24 * time.Hour), LockEnd: t0.Add(2 * 365 * 24 * time.Hour),
			InitiallyLocked: sdk.NewInt(p.Locked), Sent: sdk.NewInt(p.Sent), Withdrawn: sdk.NewInt(p.Withdrawn)})
	}
	return out
}

// c16After, when set, is called with the state right after a successful upgrade (used by C11's
// replicas to take a digest of what the handler wrote).
func c16Run(w *harness.World, cs c16Case, st *c16Stats, report func(sig, what string), c16After ...func(ctx sdk.Context)) {
	atomic.AddInt64(&st.cases, 1)
	app := w.App
	ctx := harness.Branch(w.Root())
	cdc := app.AppCodec()
	vstore := ctx.KVStore(app.GetKey(vtypes.StoreKey))
	// --- write the pre-upgrade state in the previous format --------------------------------------
	for _, mod := range []string{mtypes.ModuleName, dtypes.ModuleName, vtypes.ModuleName, sigtypes.ModuleName} {
		ss := app.GetSubspace(mod)
		if !ss.HasKeyTable() {
			switch mod {
			case mtypes.ModuleName:
				ss.WithKeyTable(mtypes.ParamKeyTable())
			case dtypes.ModuleName:
				ss.WithKeyTable(dtypes.ParamKeyTable())
			case vtypes.ModuleName:
				ss.WithKeyTable(vtypes.ParamKeyTable())
			case sigtypes.ModuleName:
				ss.WithKeyTable(sigtypes.ParamKeyTable())
			}
		}
	}
	mcfg := c16Minters()[cs.Minter]
	lp := mcfg.LegacyParams()
	app.GetSubspace(mtypes.ModuleName).SetParamSet(ctx, &lp)
	dp := c16Distrs()[cs.Distr]
	if cs.DistrV1 {
		ctx.KVStore(app.GetKey(paramstypes.StoreKey)).Set(append([]byte(dtypes.ModuleName+"/"), dtypes.KeySubDistributors...), c16DistrV1JSON(dp))
	} else {
		app.GetSubspace(dtypes.ModuleName).SetParamSet(ctx, &dp)
	}
	vp := vtypes.Params{Denom: harness.Denom}
	app.GetSubspace(vtypes.ModuleName).SetParamSet(ctx, &vp)
	// new-format parameter keys do not exist before the migration
	ctx.KVStore(app.GetKey(mtypes.StoreKey)).Delete(mtypes.ParamsKey)
	ctx.KVStore(app.GetKey(dtypes.StoreKey)).Delete(dtypes.ParamsKey)
	vstore.Delete(vtypes.ParamsKey)
	// vesting types
	vts := vtypes.VestingTypes{VestingTypes: []*vtypes.VestingType{{Name: "Advisors", LockupPeriod: time.Hour, VestingPeriod: time.Hour, Free: sdk.ZeroDec()}}}
	if cs.ValidatorsVT {
		vts.VestingTypes = append(vts.VestingTypes, &vtypes.VestingType{Name: "Validators", LockupPeriod: 2 * time.Hour, VestingPeriod: 3 * time.Hour, Free: sdk.MustNewDecFromStr("0.05")})
	}
	app.CfevestingKeeper.SetVestingTypes(ctx, vts)
	// pools (v2 format), module balance
	total := int64(0)
	type oldPool struct {
		owner string
		c16Pool
	}
	var olds []oldPool
	other := harness.AddrS("O2")
	ps := prefix.NewStore(vstore, v2.AccountVestingPoolsKeyPrefix)
	writePools := func(owner string, pools []c16Pool) {
		if pools == nil {
			return
		}
		avp := v2.AccountVestingPools{Address: owner, VestingPools: toV2(pools, harness.T0)}
		ps.Set([]byte(owner), cdc.MustMarshal(&avp))
		for _, p := range pools {
			total += p.Locked - p.Sent - p.Withdrawn
			olds = append(olds, oldPool{owner, p})
		}
	}
	writePools(c16Owner, cs.OwnerPools)
	writePools(other, cs.OtherPools)
	if total > 0 {
		c := sdk.NewCoins(sdk.NewInt64Coin(harness.Denom, total))
		if err := app.BankKeeper.MintCoins(ctx, mtypes.ModuleName, c); err != nil {
			panic(err)
		}
		if err := app.BankKeeper.SendCoinsFromModuleToModule(ctx, mtypes.ModuleName, vtypes.ModuleName, c); err != nil {
			panic(err)
		}
	}
	// old traces: listed genesis address, listed from-pool address, an unlisted one
	oldTraces := []v2.VestingAccount{{Id: 0, Address: c16ListedGenesis}, {Id: 1, Address: harness.AddrS("unlisted")}, {Id: 2, Address: c16ListedFromPool}}
	ts := prefix.NewStore(vstore, vtypes.KeyPrefix(v2.VestingAccountKey))
	for _, t := range oldTraces {
		k := make([]byte, 8)
		binary.BigEndian.PutUint64(k, t.Id)
		ts.Set(k, cdc.MustMarshal(&t))
	}
	cnt := make([]byte, 8)
	binary.BigEndian.PutUint64(cnt, uint64(len(oldTraces)))
	vstore.Set([]byte(v2.VestingAccountCountKey), cnt)
	// the four hard-coded accounts
	t0 := harness.T0.Unix()
	type accSnap struct {
		kind       string
		ov, dv, df sdk.Coins
		start, end int64
		raw        []byte
	}
	snaps := make([]accSnap, 4)
	for i, a := range c16HardAccounts {
		addr, _ := sdk.AccAddressFromBech32(a)
		kind := cs.Accounts[i]
		snaps[i].kind = kind
		if kind == "absent" {
			continue
		}
		bacc := authtypes.NewBaseAccountWithAddress(addr)
		bacc.AccountNumber = app.AccountKeeper.GetNextAccountNumber(ctx)
		ov := coins(1_000_000 + int64(i))
		var acc authtypes.AccountI = bacc
		switch kind {
		case "cont", "cont-delegated":
			acc = vestingtypes.NewContinuousVestingAccountRaw(vestingtypes.NewBaseVestingAccount(bacc, ov, t0+2*365*86400), t0-86400)
		case "cont-dst":
			// start and end next to daylight-saving switches of common time zones: a one-year shift done in
			// a node's local calendar would depend on the zone (2023-03-28 12:00 UTC, 2025-10-26 00:30 UTC)
			acc = vestingtypes.NewContinuousVestingAccountRaw(vestingtypes.NewBaseVestingAccount(bacc, ov, 1761438600), 1680004800)
		case "delayed":
			acc = vestingtypes.NewDelayedVestingAccountRaw(vestingtypes.NewBaseVestingAccount(bacc, ov, t0+365*86400))
		}
		app.AccountKeeper.SetAccount(ctx, acc)
		if kind != "base" {
			if err := app.BankKeeper.MintCoins(ctx, mtypes.ModuleName, ov); err != nil {
				panic(err)
			}
			if err := app.BankKeeper.SendCoinsFromModuleToAccount(ctx, mtypes.ModuleName, addr, ov); err != nil {
				panic(err)
			}
		}
		if kind == "cont-delegated" {
			val, _ := app.StakingKeeper.GetValidator(ctx, harness.ValAddr())
			if _, err := app.StakingKeeper.Delegate(ctx, addr, sdk.NewInt(400_000), stakingtypes.Unbonded, val, true); err != nil {
				panic(err)
			}
		}
		cur := app.AccountKeeper.GetAccount(ctx, addr)
		snaps[i].raw, _ = cdc.MarshalInterface(cur)
		if va, ok := cur.(*vestingtypes.ContinuousVestingAccount); ok {
			snaps[i].ov, snaps[i].dv, snaps[i].df, snaps[i].start, snaps[i].end = va.OriginalVesting, va.DelegatedVesting, va.DelegatedFree, va.StartTime, va.EndTime
		}
	}
	// module versions before the upgrade
	vm := app.UpgradeKeeper.GetModuleVersionMap(ctx)
	vm[mtypes.ModuleName], vm[dtypes.ModuleName], vm[vtypes.ModuleName] = 2, 2, 2
	if cs.DistrV1 {
		vm[dtypes.ModuleName] = 1
	}
	delete(vm, "interchainaccounts")
	app.UpgradeKeeper.SetModuleVersionMap(ctx, vm)
	supplyBefore := app.BankKeeper.GetSupply(ctx, harness.Denom).Amount

	// --- the whole registered upgrade handler -----------------------------------------------------
	var panicked string
	func() {
		defer func() {
			if r := recover(); r != nil {
				panicked = fmt.Sprint(r) + "\n" + string(debug.Stack())
			}
		}()
		app.UpgradeKeeper.ApplyUpgrade(ctx, upgradetypes.Plan{Name: "v1.2.0", Height: ctx.BlockHeight()})
	}()
	if panicked != "" {
		report("upgrade-panics:"+repoFrame(panicked), "the upgrade handler failed: "+firstLine(panicked))
		return
	}
	for _, f := range c16After {
		f(ctx)
	}

	// --- oracles ----------------------------------------------------------------------------------
	newPools := app.CfevestingKeeper.GetAllAccountVestingPools(ctx)
	sum := sdk.ZeroInt()
	// pool names need not be unique per owner (the split appends pools whatever the owner already
	// holds), so pools are looked up as a multiset per owner/name
	byKey := map[string][]*vtypes.VestingPool{}
	used := map[*vtypes.VestingPool]bool{}
	for _, avp := range newPools {
		for _, p := range avp.VestingPools {
			cur := p.InitiallyLocked.Sub(p.Sent).Sub(p.Withdrawn)
			sum = sum.Add(cur)
			byKey[avp.Owner+"/"+p.Name] = append(byKey[avp.Owner+"/"+p.Name], p)
			if p.Sent.IsNegative() || p.Withdrawn.IsNegative() || cur.IsNegative() {
				report("pool-insolvent", fmt.Sprintf("after the upgrade pool %s/%s has locked=%s sent=%s withdrawn=%s", avp.Owner, p.Name, p.InitiallyLocked, p.Sent, p.Withdrawn))
			}
		}
	}
	if !sum.Equal(sdk.NewInt(total)) {
		report("total-locked-changed", fmt.Sprintf("total currently locked was %d before the upgrade and is %s after", total, sum))
	}
	if bal := app.BankKeeper.GetBalance(ctx, harness.ModAddr(vtypes.ModuleName), harness.Denom).Amount; !bal.Equal(sum) {
		report("module-balance", fmt.Sprintf("vesting module account holds %s, pools sum to %s", bal, sum))
	}
	if s := app.BankKeeper.GetSupply(ctx, harness.Denom).Amount; !s.Equal(supplyBefore) {
		report("supply-changed", fmt.Sprintf("supply changed from %s to %s", supplyBefore, s))
	}
	// every pre-upgrade pool is matched with one post-upgrade pool of the same owner and name,
	// preferring one with the same history
	take := func(key string, o oldPool) (*vtypes.VestingPool, bool) {
		var fallback *vtypes.VestingPool
		for _, p := range byKey[key] {
			if used[p] {
				continue
			}
			if p.Sent.Equal(sdk.NewInt(o.Sent)) && p.Withdrawn.Equal(sdk.NewInt(o.Withdrawn)) {
				used[p] = true
				return p, true
			}
			if fallback == nil {
				fallback = p
			}
		}
		if fallback != nil {
			used[fallback] = true
			return fallback, true
		}
		return nil, false
	}
	matched := make([]*vtypes.VestingPool, len(olds))
	for i, o := range olds {
		p, ok := take(o.owner+"/"+o.Name, o)
		if !ok && o.owner == c16Owner && o.Name == "Validators pool" {
			p, ok = take(o.owner+"/Validator round pool", o)
		}
		if !ok {
			report("pool-lost", fmt.Sprintf("pool %s/%s does not exist after the upgrade", o.owner, o.Name))
			continue
		}
		matched[i] = p
	}
	// the pools the split creates are those of the four names that no pre-upgrade pool accounts for
	newNames := []string{"VC round pool", "Early-bird round pool", "Public round pool", "Strategic reserve short term round pool"}
	present := 0
	for _, n := range newNames {
		for _, p := range byKey[c16Owner+"/"+n] {
			if !used[p] {
				present++
				break
			}
		}
	}
	if present != 0 && present != 4 {
		report("split-partial", fmt.Sprintf("%d of the 4 new pools exist after the upgrade", present))
	}
	if present == 4 {
		atomic.AddInt64(&st.splitDone, 1)
	} else {
		atomic.AddInt64(&st.splitSkipped, 1)
	}
	for i, o := range olds {
		p := matched[i]
		if p == nil {
			continue
		}
		if !p.Sent.Equal(sdk.NewInt(o.Sent)) || !p.Withdrawn.Equal(sdk.NewInt(o.Withdrawn)) {
			report("history-changed", fmt.Sprintf("pool %s/%s: sent/withdrawn %d/%d before, %s/%s after", o.owner, o.Name, o.Sent, o.Withdrawn, p.Sent, p.Withdrawn))
		}
		wantLocked := sdk.NewInt(o.Locked)
		if present == 4 && o.owner == c16Owner && o.Name == "Validators pool" {
			wantLocked = wantLocked.SubRaw(c16Sum)
		}
		if !p.InitiallyLocked.Equal(wantLocked) {
			report("locked-changed", fmt.Sprintf("pool %s/%s: initially locked %d before, %s after (split applied: %v)", o.owner, o.Name, o.Locked, p.InitiallyLocked, present == 4))
		}
	}
	// every pool must still be able to name a vesting type? (not part of the property) -- skipped
	// vesting accounts whose schedule is shifted keep their amounts
	for i, a := range c16HardAccounts {
		addr, _ := sdk.AccAddressFromBech32(a)
		cur := app.AccountKeeper.GetAccount(ctx, addr)
		switch snaps[i].kind {
		case "absent":
			if cur != nil {
				report("account-created", fmt.Sprintf("account %s was created by the upgrade", a))
			}
		case "cont", "cont-delegated", "cont-dst":
			va, ok := cur.(*vestingtypes.ContinuousVestingAccount)
			if !ok {
				report("account-type-changed", fmt.Sprintf("account %s is %T after the upgrade", a, cur))
				continue
			}
			atomic.AddInt64(&st.shifted, 1)
			if !coinsEq(va.OriginalVesting, snaps[i].ov) || !coinsEq(va.DelegatedVesting, snaps[i].dv) || !coinsEq(va.DelegatedFree, snaps[i].df) {
				report("shifted-account-amounts", fmt.Sprintf("account %s: original/delegated vesting %s/%s before, %s/%s after", a, snaps[i].ov, snaps[i].dv, va.OriginalVesting, va.DelegatedVesting))
			}
			if va.EndTime-va.StartTime < snaps[i].end-snaps[i].start-86400 || va.StartTime < snaps[i].start {
				report("shifted-account-schedule", fmt.Sprintf("account %s: schedule %d..%d before, %d..%d after", a, snaps[i].start, snaps[i].end, va.StartTime, va.EndTime))
			}
		default:
			raw, _ := cdc.MarshalInterface(cur)
			if !bytes.Equal(raw, snaps[i].raw) {
				report("other-account-changed", fmt.Sprintf("account %s (%s) was modified by the upgrade", a, snaps[i].kind))
			}
		}
	}
	// traces
	traces := app.CfevestingKeeper.GetAllVestingAccountTrace(ctx)
	if len(traces) != len(oldTraces) || app.CfevestingKeeper.GetVestingAccountTraceCount(ctx) != uint64(len(oldTraces)) {
		report("traces-lost", fmt.Sprintf("%d recorded vesting accounts before, %d after (count %d)", len(oldTraces), len(traces), app.CfevestingKeeper.GetVestingAccountTraceCount(ctx)))
	}
	for _, ot := range oldTraces {
		nt, found := app.CfevestingKeeper.GetVestingAccountTrace(ctx, ot.Address)
		if !found || nt.Id != ot.Id {
			report("trace-changed", fmt.Sprintf("record of %s: found=%v id=%d (was %d)", ot.Address, found, nt.Id, ot.Id))
		}
	}
	// migrated minter parameters validate and describe the same schedule
	np := app.CfeminterKeeper.GetParams(ctx)
	if err := np.Validate(); err != nil {
		report("minter-params-invalid", "migrated minter parameters do not validate: "+err.Error())
	} else if ns, err := scheduleOfParams(np); err != nil {
		report("minter-params-invalid", err.Error())
	} else {
		os := mcfg.Schedule()
		for _, d := range append(mcfg.grid(11), -50*time.Second, 0) {
			t := harness.T0.Add(d)
			a, _ := os.Cumulative(t)
			b, _ := ns.Cumulative(t)
			if a.Cmp(b) != 0 {
				report("minter-schedule-changed", fmt.Sprintf("%s: cumulative emission at +%s is %s before and %s after the migration", mcfg, d, a.FloatString(6), b.FloatString(6)))
				break
			}
		}
		if np.MintDenom != lp.MintDenom {
			report("minter-denom-changed", "mint denom changed")
		}
	}
	ndp := app.CfedistributorKeeper.GetParams(ctx)
	if err := ndp.Validate(); err != nil {
		report("distributor-params-invalid", "migrated distributor parameters do not validate: "+err.Error())
	}
	if !bytes.Equal(cdc.MustMarshal(&ndp), cdc.MustMarshal(&dp)) {
		report("distributor-params-changed", "migrated distributor parameters differ from the legacy ones")
	}
	if app.CfevestingKeeper.GetParams(ctx).Denom != harness.Denom {
		report("vesting-denom-changed", "vesting denom changed")
	}
	// and the registered C05 invariants
	for _, v := range vestInvariant("C16")(w, ctx, nil) {
		report("invariant:"+v.Sig, v.What)
	}
	_ = big.NewInt
}

func runC16(rc *RunCtx) {
	cases := c16Cases(rc.Thorough())
	genesis := c16Genesis()
	worlds := make([]*harness.World, rc.Workers)
	var st c16Stats
	var mu sync.Mutex
	var samples []interface{}
	ParallelFor(rc.Workers, len(cases), func(wk, i int) {
		if worlds[wk] == nil {
			worlds[wk] = harness.NewWorld(genesis, harness.T0)
		}
		cs := cases[i]
		c16Run(worlds[wk], cs, &st, func(sig, what string) {
			rc.Violate(&explore.Violation{Property: "C16", Sig: "C16:" + sig, What: fmt.Sprintf("%+v: %s", cs, what), Detail: cs})
		})
		if i%(len(cases)/5+1) == 0 {
			mu.Lock()
			samples = append(samples, cs)
			mu.Unlock()
		}
	})
	rc.Level = "exploration"
	rc.Cov = map[string]interface{}{
		"evaluations": int(st.cases), "distinct_nontrivial": int(st.splitDone),
		"rule":    "product alphabet of pre-upgrade stores written in the previous format (v2 pools under the old prefix, old traces, legacy x/params subspaces, module versions 2): the hard-coded owner's pools over subsets of {Validators pool, Advisors pool, other} in several orders with currently-locked of the validators pool in {0, sum-1, sum, sum+1, 2*sum} x with/without sent+withdrawn history; a second owner's pool of the same type; vesting type present/absent; the four hard-coded accounts in {absent, base, continuous, continuous+delegated, delayed} (uniform and mixed); 8 legacy minter and 4 legacy distributor parameter sets. Each case runs the WHOLE registered v1.2.0 handler through UpgradeKeeper.ApplyUpgrade. Non-trivial = cases in which the validators-pool split was actually applied; every case is a distinct input.",
		"samples": samples, "split_applied": int(st.splitDone), "split_skipped": int(st.splitSkipped), "accounts_shifted": int(st.shifted), "exhaustive": true,
	}
	rc.Assume = []string{"the handler runs in-process on a store branch of an application whose genesis has no interchain-accounts state; the ICA module's own InitModule is trusted"}
}
