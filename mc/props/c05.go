package props

import (
	"fmt"
	"time"

	"c4emc/explore"
	"c4emc/harness"

	sdk "github.com/cosmos/cosmos-sdk/types"
)

func vestScenario(name, prop string, cfg vestCfg) *Scenario {
	return &Scenario{
		Name: name, Genesis: harness.BuildGenesis(vestGenesis()), T0: harness.T0,
		Events:      vestEvents(cfg),
		NewAux:      func(w *harness.World, root sdk.Context) interface{} { return newPoolModel(w, root) },
		StepOracle:  vestStep(prop),
		StateOracle: vestInvariant(prop),
	}
}

func c05Cfg() vestCfg {
	return vestCfg{
		name: "c05", owners: []string{"A", "B"}, pools: []string{"p", "q"},
		poolSpecs: []poolSpec{{10, 5 * time.Second, "t5"}, {5, 20 * time.Second, "t0"}},
		blocks:    []time.Duration{1 * time.Second, 5 * time.Second, 30 * time.Second},
		sendAmts:  []string{"3", "rem", "rem+1"}, withExtra: true, withInval: true, withUpper: true, withMulti: true,
	}
}

func init() {
	Register(&Check{ID: "C05", Level: "model_checking", Run: runC05})
}

func runC05(rc *RunCtx) {
	scn := vestScenario("c05", "C05", c05Cfg())
	depth, budget, maxTraces := 4, 100*time.Second, 3000
	if rc.Thorough() {
		depth, budget, maxTraces = 5, 20*time.Minute, 0
	}
	runScenarioCheck(rc, scn, depth, budget, maxTraces, "C05")
}

// runScenarioCheck is the common shape of the model-checking checks: explore in mode A, replay
// the BFS tree in mode B, write coverage.
func runScenarioCheck(rc *RunCtx, scn *Scenario, depth int, budget time.Duration, maxTraces int, rejectedUnchanged string) *explore.Result {
	sys := scnSystem{scn}
	res := explore.Run(sys, explore.Options{MaxDepth: depth, Workers: rc.Workers, Budget: budget, KeepTree: true, Progress: func(s string) { rc.Logf("%s", s) }})
	rc.ViolateAll(res.Violations)
	events := sys.Events()
	cov := CovFromResult(events, res)
	cov["scenario"] = scn.Name
	if scn.BlockFn == nil {
		conf := Conform(scn, events, res.Tree, ConformOpts{MaxTraces: maxTraces, Workers: rc.Workers, Seed: rc.Seed, Deadline: rc.Start.Add(budget + 3*time.Minute), RejectedUnchanged: rejectedUnchanged})
		rc.ViolateAll(conf.Violations)
		cov["traces_validated_against_impl"] = conf.Traces - len(conf.Mismatches)
		cov["conformance_traces_total"] = conf.TotalTraces
		cov["conformance_steps"] = conf.Steps
		cov["conformance_capped"] = conf.Capped
		if rejectedUnchanged != "" {
			cov["rejected_tx_checked_in_B"] = conf.RejectedChecked
		}
		if len(conf.Mismatches) > 0 {
			cov["conformance_mismatches"] = conf.Mismatches[:min(5, len(conf.Mismatches))]
			rc.Logf("CONFORMANCE MISMATCH: %s", conf.Mismatches[0])
			rc.MachineryError = true
		}
	} else {
		cov["traces_validated_against_impl"] = 0
	}
	rc.Cov = cov
	rc.Level = "model_checking"
	rc.Assume = append(rc.Assume, "Cosmos SDK / Tendermint are trusted", "block heights and non-custom SDK module stores are not part of state identity",
		fmt.Sprintf("histories up to depth %d over the listed alphabet", res.DepthComplete))
	return res
}

func min(a, b int) int {
	if a < b {
		return a
	}
	return b
}
