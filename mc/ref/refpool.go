// Package ref holds the deliberately boring reference models used as oracles.
package ref

import (
	"fmt"
	"math/big"
	"sort"
	"time"
)

type Pred int

const (
	PredAny Pred = iota // the model does not fix the outcome
	PredOK
	PredFail
)

type Pool struct {
	Name, Type               string
	Locked0, Sent, Withdrawn *big.Int
	LockEnd                  time.Time
	Genesis                  bool
}

func (p *Pool) Remainder() *big.Int {
	r := new(big.Int).Sub(p.Locked0, p.Sent)
	return r.Sub(r, p.Withdrawn)
}

type VType struct {
	FreeNum, FreeDen *big.Int // free fraction
	Lockup, Vesting  time.Duration
}

// PoolModel: owner -> pools, plain balances, set of existing accounts.
type PoolModel struct {
	Pools   map[string][]*Pool
	Bal     map[string]*big.Int
	Exists  map[string]bool
	Blocked map[string]bool
	Types   map[string]VType
	Module  string // address of the vesting module account
}

func (m *PoolModel) Clone() *PoolModel {
	c := &PoolModel{Pools: map[string][]*Pool{}, Bal: map[string]*big.Int{}, Exists: map[string]bool{}, Blocked: m.Blocked, Types: m.Types, Module: m.Module}
	for o, ps := range m.Pools {
		cp := make([]*Pool, len(ps))
		for i, p := range ps {
			q := *p
			q.Locked0, q.Sent, q.Withdrawn = new(big.Int).Set(p.Locked0), new(big.Int).Set(p.Sent), new(big.Int).Set(p.Withdrawn)
			cp[i] = &q
		}
		c.Pools[o] = cp
	}
	for a, b := range m.Bal {
		c.Bal[a] = new(big.Int).Set(b)
	}
	for a := range m.Exists {
		c.Exists[a] = true
	}
	return c
}

func (m *PoolModel) bal(a string) *big.Int {
	if b, ok := m.Bal[a]; ok {
		return b
	}
	b := new(big.Int)
	m.Bal[a] = b
	return b
}

func (m *PoolModel) move(from, to string, amt *big.Int) {
	m.bal(from).Sub(m.bal(from), amt)
	m.bal(to).Add(m.bal(to), amt)
}

// CreatePool: the owner locks amount in a new named pool.
func (m *PoolModel) CreatePool(now time.Time, owner, name string, amount *big.Int, dur time.Duration, vtype string) Pred {
	if _, ok := m.Types[vtype]; !ok || name == "" || amount == nil || amount.Sign() < 0 || dur <= 0 {
		return PredFail
	}
	if m.bal(owner).Cmp(amount) < 0 {
		return PredFail
	}
	for _, p := range m.Pools[owner] {
		if p.Name == name {
			return PredFail
		}
	}
	m.move(owner, m.Module, amount)
	m.Pools[owner] = append(m.Pools[owner], &Pool{Name: name, Type: vtype, Locked0: new(big.Int).Set(amount), Sent: new(big.Int), Withdrawn: new(big.Int), LockEnd: now.Add(dur)})
	return PredOK
}

// Withdraw pays the remainder of every matured pool; returns per-pool amounts.
func (m *PoolModel) Withdraw(now time.Time, owner string) (Pred, *big.Int, map[string]*big.Int) {
	ps := m.Pools[owner]
	if len(ps) == 0 {
		return PredFail, nil, nil
	}
	total := new(big.Int)
	per := map[string]*big.Int{}
	for _, p := range ps {
		if !now.Before(p.LockEnd) {
			r := p.Remainder()
			p.Withdrawn.Add(p.Withdrawn, r)
			total.Add(total, r)
			per[p.Name] = r
		} else {
			per[p.Name] = new(big.Int)
		}
	}
	m.move(m.Module, owner, total)
	return PredOK, total, per
}

// Send creates a brand-new account funded from a pool (after the implicit withdraw).
func (m *PoolModel) Send(now time.Time, owner, to, pool string, amount *big.Int) Pred {
	if pool == "" || amount == nil || amount.Sign() < 0 || owner == to {
		return PredFail
	}
	c := m.Clone()
	if pr, _, _ := c.Withdraw(now, owner); pr != PredOK {
		return PredFail
	}
	var p *Pool
	for _, q := range c.Pools[owner] {
		if q.Name == pool {
			p = q
		}
	}
	if p == nil || p.Remainder().Cmp(amount) < 0 {
		return PredFail
	}
	if _, ok := c.Types[p.Type]; !ok {
		return PredAny
	}
	if c.Blocked[to] || c.Exists[to] {
		return PredFail
	}
	p.Sent.Add(p.Sent, amount)
	c.move(c.Module, to, amount)
	c.Exists[to] = true
	*m = *c
	return PredOK
}

// Transfer is used for operations whose success the pool model does not decide (split/move,
// direct vesting-account creation): the implementation's verdict is taken, the effect is a
// plain transfer to a new account.
func (m *PoolModel) Transfer(from, to string, amt *big.Int, creates bool) {
	m.move(from, to, amt)
	if creates {
		m.Exists[to] = true
	}
}

// Canon renders the model for comparison.
func (m *PoolModel) CanonPools() string {
	owners := make([]string, 0, len(m.Pools))
	for o := range m.Pools {
		owners = append(owners, o)
	}
	sort.Strings(owners)
	s := ""
	for _, o := range owners {
		s += o + ":"
		for _, p := range m.Pools[o] {
			s += fmt.Sprintf("[%s %s %s %s %s %d g=%v]", p.Name, p.Type, p.Locked0, p.Sent, p.Withdrawn, p.LockEnd.UnixNano(), p.Genesis)
		}
		s += ";"
	}
	return s
}
