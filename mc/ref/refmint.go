package ref

import (
	"math/big"
	"time"
)

type PeriodKind int

const (
	NoMint PeriodKind = iota
	Linear
	ExpStep
)

// Period of an emission schedule. End == nil for the last period.
type Period struct {
	Kind   PeriodKind
	Amount *big.Int
	Step   time.Duration
	Mult   *big.Rat
	End    *time.Time
}

// Schedule is the documented emission schedule: a closed-form function of time, no state.
type Schedule struct {
	Start   time.Time
	Periods []Period
}

var ulp = new(big.Rat).SetFrac(big.NewInt(1), new(big.Int).Exp(big.NewInt(10), big.NewInt(18), nil))

func ratInt(i int64) *big.Rat { return new(big.Rat).SetInt64(i) }

// periodEmission: emission of one period from its start s up to t (t may exceed the end), with a
// bound on the absolute error an 18-decimal fixed-point evaluation of the same formula can have.
func periodEmission(p Period, s, t time.Time) (*big.Rat, *big.Rat) {
	zero := new(big.Rat)
	if t.Before(s) {
		return zero, new(big.Rat)
	}
	switch p.Kind {
	case NoMint:
		return zero, new(big.Rat)
	case Linear:
		amt := new(big.Rat).SetInt(p.Amount)
		if p.End == nil {
			return zero, new(big.Rat)
		}
		if !t.Before(*p.End) {
			return amt, new(big.Rat)
		}
		passed := t.UnixMilli() - s.UnixMilli()
		period := p.End.UnixMilli() - s.UnixMilli()
		r := new(big.Rat).Mul(amt, new(big.Rat).SetFrac64(passed, period))
		return r, new(big.Rat).Mul(ulp, ratInt(2))
	case ExpStep:
		now := t
		if p.End != nil && t.After(*p.End) {
			now = *p.End
		}
		passed := int64(now.Sub(s))
		step := int64(p.Step)
		k := passed / step
		total := new(big.Rat)
		epoch := new(big.Rat).SetInt(p.Amount)
		for i := int64(0); i < k; i++ {
			if i > 0 {
				epoch.Mul(epoch, p.Mult)
			}
			total.Add(total, epoch)
		}
		cur := new(big.Rat).Set(epoch)
		if k > 0 {
			cur.Mul(cur, p.Mult)
		}
		inStep := passed - k*step
		total.Add(total, new(big.Rat).Mul(cur, new(big.Rat).SetFrac64(inStep, step)))
		eb := new(big.Rat).Mul(ulp, ratInt((k+2)*(k+2)))
		return total, eb
	}
	return zero, new(big.Rat)
}

// Cumulative emission from the schedule start up to t, and the fixed-point error bound.
func (s Schedule) Cumulative(t time.Time) (*big.Rat, *big.Rat) {
	total, eb := new(big.Rat), new(big.Rat)
	if t.Before(s.Start) {
		return total, eb
	}
	ps := s.Start
	for _, p := range s.Periods {
		e, b := periodEmission(p, ps, t)
		total.Add(total, e)
		eb.Add(eb, b)
		if p.End == nil || t.Before(*p.End) {
			break
		}
		ps = *p.End
	}
	return total, eb
}

// FloorRange returns the integers floor(x-eb) and floor(x+eb).
func FloorRange(x, eb *big.Rat) (*big.Int, *big.Int) {
	return floorRat(new(big.Rat).Sub(x, eb)), floorRat(new(big.Rat).Add(x, eb))
}

func floorRat(r *big.Rat) *big.Int {
	q := new(big.Int)
	m := new(big.Int)
	q.DivMod(r.Num(), r.Denom(), m) // Euclidean: m >= 0, so q is the floor
	return q
}

// Current returns the index of the period that contains t (the period whose end is > t), and its start.
func (s Schedule) Current(t time.Time) (int, time.Time) {
	ps := s.Start
	for i, p := range s.Periods {
		if p.End == nil || t.Before(*p.End) {
			return i, ps
		}
		ps = *p.End
	}
	return len(s.Periods) - 1, ps
}

// RatePerYear is the annualised emission rate of the step that contains t (coins per 365 days),
// 0 before the start, in no-minting periods.
func (s Schedule) RatePerYear(t time.Time) *big.Rat {
	if t.Before(s.Start) {
		return new(big.Rat)
	}
	i, ps := s.Current(t)
	p := s.Periods[i]
	year := new(big.Rat).SetInt64(int64(365 * 24 * time.Hour))
	switch p.Kind {
	case Linear:
		dur := p.End.Sub(ps)
		return new(big.Rat).Mul(new(big.Rat).SetInt(p.Amount), new(big.Rat).Quo(year, ratInt(int64(dur))))
	case ExpStep:
		k := int64(t.Sub(ps)) / int64(p.Step)
		a := new(big.Rat).SetInt(p.Amount)
		for j := int64(0); j < k; j++ {
			a.Mul(a, p.Mult)
		}
		return a.Mul(a, new(big.Rat).Quo(year, ratInt(int64(p.Step))))
	}
	return new(big.Rat)
}
