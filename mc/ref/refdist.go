package ref

import (
	"fmt"
	"math/big"
	"sort"
)

// Reference model of the documented sub-distributor flow.
//
// Accounts are keyed by (type,id). Amounts are 18-decimal fixed point (big.Int scaled by 1e18)
// with truncating share multiplication, which is the numeric convention the module documents
// (shares are truncated, the primary destination receives the remainder, fractions are carried).
// Next to it the exact-rational entitlement of every destination is accumulated so that the
// "never drifts by more than one base unit" clause can be evaluated without that convention.

const (
	AccMain     = "MAIN"
	AccModule   = "MODULE_ACCOUNT"
	AccBase     = "BASE_ACCOUNT"
	AccInternal = "INTERNAL_ACCOUNT"
	BurnKey     = "BURN"
)

var One18 = new(big.Int).Exp(big.NewInt(10), big.NewInt(18), nil)

type DAccount struct{ Type, ID string }

func (a DAccount) Key() string {
	if a.Type == AccMain {
		return AccMain
	}
	return a.Type + "-" + a.ID
}

type DShare struct {
	Name  string
	Dest  DAccount
	Share *big.Int // scaled 1e18
}

type DSub struct {
	Name    string
	Sources []DAccount
	Primary DAccount
	Burn    *big.Int // scaled 1e18
	Shares  []DShare
}

// Amt is a multi-denomination amount.
type Amt map[string]*big.Int

func (a Amt) Clone() Amt {
	c := Amt{}
	for d, v := range a {
		c[d] = new(big.Int).Set(v)
	}
	return c
}

func (a Amt) Add(b Amt) {
	for d, v := range b {
		if a[d] == nil {
			a[d] = new(big.Int)
		}
		a[d].Add(a[d], v)
	}
}

func (a Amt) Sub(b Amt) {
	for d, v := range b {
		if a[d] == nil {
			a[d] = new(big.Int)
		}
		a[d].Sub(a[d], v)
	}
}

func (a Amt) IsZero() bool {
	for _, v := range a {
		if v.Sign() != 0 {
			return false
		}
	}
	return true
}

func (a Amt) String() string {
	ds := make([]string, 0, len(a))
	for d, v := range a {
		if v.Sign() != 0 {
			ds = append(ds, d)
		}
	}
	sort.Strings(ds)
	s := ""
	for _, d := range ds {
		s += fmt.Sprintf("%s%s ", a[d], d)
	}
	return s
}

// DistModel is the whole distributor state: pending entitlements per destination (fixed point),
// bank balances (integers) of every account the configuration mentions, totals.
type DistModel struct {
	Subs    []DSub
	Pending map[string]Amt // dest key (or BURN) -> fixed point
	Bal     map[string]Amt // bank key: MAIN, MODULE_ACCOUNT-x, BASE_ACCOUNT-x -> integer coins
	Burned  Amt            // integer coins
	// Exact cumulative entitlement (rationals) per destination key, and cumulative paid+swept bookkeeping.
	Entitled map[string]map[string]*big.Rat
	// SweepFails / PayFails: accounts whose transfers fail for reasons outside the distributor.
	SweepFails map[string]bool
	PayFails   map[string]bool
	Ops        int // number of truncating multiplications performed so far
	// Alias maps a destination key to the bank account that actually backs it (the module-typed
	// name of the main account is the main account).
	Alias map[string]string
	// LastInflow: per sub-distributor name, the inflow it distributed in the last block (fixed point).
	LastInflow map[string]Amt
}

func NewDistModel(subs []DSub) *DistModel {
	return &DistModel{Subs: subs, Pending: map[string]Amt{}, Bal: map[string]Amt{AccMain: {}}, Burned: Amt{}, Entitled: map[string]map[string]*big.Rat{}, SweepFails: map[string]bool{}, PayFails: map[string]bool{}, Alias: map[string]string{}}
}

func (m *DistModel) Clone() *DistModel {
	c := &DistModel{Subs: m.Subs, Pending: map[string]Amt{}, Bal: map[string]Amt{}, Burned: m.Burned.Clone(), Entitled: map[string]map[string]*big.Rat{}, SweepFails: m.SweepFails, PayFails: m.PayFails, Ops: m.Ops, Alias: m.Alias}
	for k, v := range m.Pending {
		c.Pending[k] = v.Clone()
	}
	for k, v := range m.Bal {
		c.Bal[k] = v.Clone()
	}
	for k, v := range m.Entitled {
		c.Entitled[k] = map[string]*big.Rat{}
		for d, r := range v {
			c.Entitled[k][d] = new(big.Rat).Set(r)
		}
	}
	return c
}

func (m *DistModel) bal(k string) Amt {
	if a, ok := m.Alias[k]; ok {
		k = a
	}
	if m.Bal[k] == nil {
		m.Bal[k] = Amt{}
	}
	return m.Bal[k]
}

func (m *DistModel) pend(k string) Amt {
	if m.Pending[k] == nil {
		m.Pending[k] = Amt{}
	}
	return m.Pending[k]
}

// Inflow adds coins to a bank account (external event between blocks).
func (m *DistModel) Inflow(acc DAccount, coins Amt) { m.bal(acc.Key()).Add(coins) }

func toFP(a Amt) Amt {
	c := Amt{}
	for d, v := range a {
		c[d] = new(big.Int).Mul(v, One18)
	}
	return c
}

func mulTrunc(a Amt, share *big.Int) Amt {
	c := Amt{}
	for d, v := range a {
		x := new(big.Int).Mul(v, share)
		c[d] = x.Quo(x, One18)
	}
	return c
}

func (m *DistModel) entitle(key string, a Amt, share *big.Int, inflow Amt, primary bool, others *big.Int) {
	if m.Entitled[key] == nil {
		m.Entitled[key] = map[string]*big.Rat{}
	}
	for d, v := range inflow {
		if m.Entitled[key][d] == nil {
			m.Entitled[key][d] = new(big.Rat)
		}
		var sh *big.Rat
		if primary {
			sh = new(big.Rat).SetFrac(new(big.Int).Sub(One18, others), One18)
		} else {
			sh = new(big.Rat).SetFrac(share, One18)
		}
		x := new(big.Rat).SetFrac(v, One18)
		m.Entitled[key][d].Add(m.Entitled[key][d], x.Mul(x, sh))
	}
	_ = a
}

// Block runs one begin-block of the documented flow.
func (m *DistModel) Block() {
	m.LastInflow = map[string]Amt{}
	mainUndist := Amt{} // fixed point: coins in the main account not assigned to anybody
	// everything in main beyond the pending entitlements is new inflow for the MAIN source
	{
		mb := toFP(m.bal(AccMain))
		for _, p := range m.Pending {
			mb.Sub(p)
		}
		mainUndist = mb
	}
	for _, sd := range m.Subs {
		inflow := Amt{}
		for _, s := range sd.Sources {
			switch s.Type {
			case AccMain:
				inflow.Add(mainUndist)
				mainUndist = Amt{}
			case AccInternal:
				inflow.Add(m.pend(s.Key()))
				m.Pending[s.Key()] = Amt{}
			default:
				if !m.SweepFails[s.Key()] {
					b := m.bal(s.Key())
					inflow.Add(toFP(b))
					bc := b.Clone()
					for d := range b {
						b[d] = new(big.Int)
					}
					m.bal(AccMain).Add(bc)
				}
				// whatever the account itself is still owed goes along
				inflow.Add(m.pend(s.Key()))
				m.Pending[s.Key()] = Amt{}
			}
		}
		if inflow.IsZero() {
			continue
		}
		m.LastInflow[sd.Name] = inflow.Clone()
		rest := inflow.Clone()
		others := new(big.Int)
		give := func(dest DAccount, key string, a Amt) {
			if dest.Type == AccMain && key != BurnKey {
				mainUndist.Add(a)
				return
			}
			m.pend(key).Add(a)
		}
		for _, sh := range sd.Shares {
			a := mulTrunc(inflow, sh.Share)
			m.Ops++
			rest.Sub(a)
			others.Add(others, sh.Share)
			give(sh.Dest, sh.Dest.Key(), a)
			m.entitle(sh.Dest.Key(), a, sh.Share, inflow, false, nil)
		}
		if sd.Burn.Sign() != 0 {
			a := mulTrunc(inflow, sd.Burn)
			m.Ops++
			rest.Sub(a)
			others.Add(others, sd.Burn)
			give(DAccount{}, BurnKey, a)
			m.entitle(BurnKey, a, sd.Burn, inflow, false, nil)
		}
		give(sd.Primary, sd.Primary.Key(), rest)
		m.entitle(sd.Primary.Key(), rest, nil, inflow, true, others)
	}
	// anything still undistributed stays in main (validation guarantees a later MAIN source; next block picks it up)
	// end of block: pay integer parts
	keys := make([]string, 0, len(m.Pending))
	for k := range m.Pending {
		keys = append(keys, k)
	}
	sort.Strings(keys)
	for _, k := range keys {
		if len(k) >= len(AccInternal) && k[:len(AccInternal)] == AccInternal {
			continue
		}
		p := m.Pending[k]
		pay := Amt{}
		any := false
		for d, v := range p {
			q := new(big.Int).Quo(v, One18)
			if q.Sign() > 0 {
				any = true
			}
			pay[d] = q
		}
		if !any || m.PayFails[k] {
			continue
		}
		for d, q := range pay {
			p[d].Sub(p[d], new(big.Int).Mul(q, One18))
		}
		m.bal(AccMain).Sub(pay)
		if k == BurnKey {
			m.Burned.Add(pay)
		} else {
			m.bal(k).Add(pay)
		}
	}
}
