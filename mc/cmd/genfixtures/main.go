// genfixtures writes the key / certificate / signature fixtures used by the C15 check.
// It is run once; its output (testdata/sigfixtures.json) is committed so that no check ever
// depends on signing randomness.
package main

import (
	"crypto"
	"crypto/ecdsa"
	"crypto/elliptic"
	"crypto/rand"
	"crypto/rsa"
	"crypto/sha256"
	"crypto/x509"
	"crypto/x509/pkix"
	"encoding/base64"
	"encoding/hex"
	"encoding/json"
	"encoding/pem"
	"math/big"
	"os"
	"time"
)

type Fixture struct {
	Name      string `json:"name"`
	Algorithm string `json:"algorithm"`
	CertPEM   string `json:"cert_pem"`
	Address   string `json:"address"`
	RefID     string `json:"ref_id"`
	Link      string `json:"link"`
	Signature string `json:"signature"` // base64
}

func h(s string) string { x := sha256.Sum256([]byte(s)); return hex.EncodeToString(x[:]) }

func cert(pub interface{}, priv interface{}, cn string) string {
	tpl := &x509.Certificate{SerialNumber: big.NewInt(1), Subject: pkix.Name{CommonName: cn}, NotBefore: time.Unix(1600000000, 0), NotAfter: time.Unix(2600000000, 0)}
	der, err := x509.CreateCertificate(rand.Reader, tpl, tpl, pub, priv)
	if err != nil {
		panic(err)
	}
	return string(pem.EncodeToMemory(&pem.Block{Type: "CERTIFICATE", Bytes: der}))
}

func main() {
	addrs := os.Args[1:] // two bech32 addresses a, b
	if len(addrs) != 2 {
		panic("usage: genfixtures <addrA> <addrB>")
	}
	refs := []string{h("reference-1"), h("reference-2")}
	// link3 / link4 differ only by a trailing separator, link5 is empty: payload strings are built by
	// joining with ':' and a sound implementation must not confuse them
	links := []string{"ipfs://link-one", "ipfs://link-two", "urn:c4e:doc:", "urn:c4e:doc", ""}
	ek, _ := ecdsa.GenerateKey(elliptic.P256(), rand.Reader)
	ek2, _ := ecdsa.GenerateKey(elliptic.P256(), rand.Reader)
	rk, _ := rsa.GenerateKey(rand.Reader, 2048)
	ecert, ecert2, rcert := cert(&ek.PublicKey, ek, "ecdsa-1"), cert(&ek2.PublicKey, ek2, "ecdsa-2"), cert(&rk.PublicKey, rk, "rsa-1")
	signE := func(k *ecdsa.PrivateKey, payload string) string {
		d := sha256.Sum256([]byte(payload))
		s, err := ecdsa.SignASN1(rand.Reader, k, d[:])
		if err != nil {
			panic(err)
		}
		return base64.StdEncoding.EncodeToString(s)
	}
	signR := func(payload string) string {
		d := sha256.Sum256([]byte(payload))
		s, err := rsa.SignPKCS1v15(rand.Reader, rk, crypto.SHA256, d[:])
		if err != nil {
			panic(err)
		}
		return base64.StdEncoding.EncodeToString(s)
	}
	var out []Fixture
	for ai, a := range addrs {
		for ri, r := range refs {
			for li, l := range links {
				payload := h(a + ":" + r + ":" + l)
				tag := string(rune('a'+ai)) + "-ref" + string(rune('1'+ri)) + "-link" + string(rune('1'+li))
				out = append(out, Fixture{"ecdsa-" + tag, "ecdsaWithSha256", ecert, a, r, l, signE(ek, payload)})
				out = append(out, Fixture{"rsa-" + tag, "sha256WithRsaEncryption", rcert, a, r, l, signR(payload)})
				out = append(out, Fixture{"ecdsa2-" + tag, "ecdsaWithSha256", ecert2, a, r, l, signE(ek2, payload)})
			}
		}
	}
	bz, _ := json.MarshalIndent(out, "", " ")
	if err := os.WriteFile("props/testdata/sigfixtures.json", bz, 0o644); err != nil {
		panic(err)
	}
}
