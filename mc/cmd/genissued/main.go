// genissued writes props/testdata/sigfixtures_issued.json: valid signature records whose certificate
// was signed by its issuer with another algorithm than the record's own (an ECDSA user key certified
// by an RSA authority and vice versa, self-signed certificates with a SHA-384 / SHA-512 certificate
// signature). Run once (go run ./cmd/genissued from mc/); the output is committed.
package main

import (
	"crypto"
	"crypto/ecdsa"
	"crypto/elliptic"
	"crypto/rand"
	"crypto/rsa"
	"crypto/sha256"
	"crypto/x509"
	"crypto/x509/pkix"
	"encoding/base64"
	"encoding/hex"
	"encoding/json"
	"encoding/pem"
	"math/big"
	"os"
	"time"
)

type Fixture struct {
	Name      string `json:"name"`
	Algorithm string `json:"algorithm"`
	CertPEM   string `json:"cert_pem"`
	Address   string `json:"address"`
	RefID     string `json:"ref_id"`
	Link      string `json:"link"`
	Signature string `json:"signature"`
}

func h(s string) string { x := sha256.Sum256([]byte(s)); return hex.EncodeToString(x[:]) }

func tpl(cn string, ca bool, alg x509.SignatureAlgorithm) *x509.Certificate {
	return &x509.Certificate{SerialNumber: big.NewInt(time.Now().UnixNano()), Subject: pkix.Name{CommonName: cn}, NotBefore: time.Unix(1600000000, 0), NotAfter: time.Unix(2600000000, 0),
		IsCA: ca, BasicConstraintsValid: true, KeyUsage: x509.KeyUsageCertSign | x509.KeyUsageDigitalSignature, SignatureAlgorithm: alg}
}

func mk(t, parent *x509.Certificate, pub, signer interface{}) (string, *x509.Certificate) {
	der, err := x509.CreateCertificate(rand.Reader, t, parent, pub, signer)
	if err != nil {
		panic(err)
	}
	c, _ := x509.ParseCertificate(der)
	return string(pem.EncodeToMemory(&pem.Block{Type: "CERTIFICATE", Bytes: der})), c
}

func main() {
	var old []Fixture
	bz, err := os.ReadFile("props/testdata/sigfixtures.json")
	if err != nil {
		panic(err)
	}
	if err := json.Unmarshal(bz, &old); err != nil {
		panic(err)
	}
	var a, r, l string
	for _, f := range old {
		if f.Name == "ecdsa-a-ref1-link1" {
			a, r, l = f.Address, f.RefID, f.Link
		}
	}
	payload := h(a + ":" + r + ":" + l)
	d := sha256.Sum256([]byte(payload))
	rsaCA, _ := rsa.GenerateKey(rand.Reader, 2048)
	ecCA, _ := ecdsa.GenerateKey(elliptic.P256(), rand.Reader)
	rsaCAt := tpl("rsa-authority", true, x509.SHA256WithRSA)
	_, rsaCAc := mk(rsaCAt, rsaCAt, &rsaCA.PublicKey, rsaCA)
	ecCAt := tpl("ecdsa-authority", true, x509.ECDSAWithSHA256)
	_, ecCAc := mk(ecCAt, ecCAt, &ecCA.PublicKey, ecCA)
	ek, _ := ecdsa.GenerateKey(elliptic.P256(), rand.Reader)
	rk, _ := rsa.GenerateKey(rand.Reader, 2048)
	signE := func() string {
		s, err := ecdsa.SignASN1(rand.Reader, ek, d[:])
		if err != nil {
			panic(err)
		}
		return base64.StdEncoding.EncodeToString(s)
	}
	signR := func() string {
		s, err := rsa.SignPKCS1v15(rand.Reader, rk, crypto.SHA256, d[:])
		if err != nil {
			panic(err)
		}
		return base64.StdEncoding.EncodeToString(s)
	}
	var out []Fixture
	c1, _ := mk(tpl("user-ecdsa", false, x509.SHA256WithRSA), rsaCAc, &ek.PublicKey, rsaCA)
	out = append(out, Fixture{"ecdsa-issued-by-rsa", "ecdsaWithSha256", c1, a, r, l, signE()})
	c2, _ := mk(tpl("user-rsa", false, x509.ECDSAWithSHA256), ecCAc, &rk.PublicKey, ecCA)
	out = append(out, Fixture{"rsa-issued-by-ecdsa", "sha256WithRsaEncryption", c2, a, r, l, signR()})
	t3 := tpl("user-ecdsa-384", false, x509.ECDSAWithSHA384)
	c3, _ := mk(t3, t3, &ek.PublicKey, ek)
	out = append(out, Fixture{"ecdsa-selfsigned-sha384", "ecdsaWithSha256", c3, a, r, l, signE()})
	t4 := tpl("user-rsa-512", false, x509.SHA512WithRSA)
	c4, _ := mk(t4, t4, &rk.PublicKey, rk)
	out = append(out, Fixture{"rsa-selfsigned-sha512", "sha256WithRsaEncryption", c4, a, r, l, signR()})
	ob, _ := json.MarshalIndent(out, "", " ")
	if err := os.WriteFile("props/testdata/sigfixtures_issued.json", ob, 0o644); err != nil {
		panic(err)
	}
}
