package main

import (
	"encoding/json"
	"flag"
	"fmt"
	"os"
	"runtime/pprof"
	"sort"
	"strconv"
	"time"

	"c4emc/props"
)

func main() {
	if len(os.Args) < 2 {
		usage()
	}
	switch os.Args[1] {
	case "check":
		fs := flag.NewFlagSet("check", flag.ExitOnError)
		tier := fs.String("tier", "quick", "quick|thorough")
		workers := fs.Int("workers", props.DefaultWorkers(), "parallel workers")
		if len(os.Args) < 3 {
			usage()
		}
		id := os.Args[2]
		_ = fs.Parse(os.Args[3:])
		if t := os.Getenv("VERIF_TIER"); t != "" && *tier == "" {
			*tier = t
		}
		c := props.Registry[id]
		if c == nil {
			fmt.Fprintln(os.Stderr, "unknown property", id)
			os.Exit(2)
		}
		seed := int64(0)
		if s := os.Getenv("VERIF_SEED"); s != "" {
			seed, _ = strconv.ParseInt(s, 10, 64)
		}
		if pf := os.Getenv("C4EMC_CPUPROFILE"); pf != "" { // development aid
			if f, err := os.Create(pf); err == nil {
				_ = pprof.StartCPUProfile(f)
				defer pprof.StopCPUProfile()
			}
		}
		rc := &props.RunCtx{ID: id, Tier: *tier, Seed: seed, Workers: *workers, Start: time.Now(), Level: c.Level}
		budget := 6 * time.Minute
		if *tier == "thorough" {
			budget = 45 * time.Minute
			if id == "C03" || id == "C04" || id == "C18" {
				budget = 70 * time.Minute // 1.4 million configurations x 31 block steps
			}
		}
		rc.Deadline = rc.Start.Add(budget)
		props.Active = rc
		c.Run(rc)
		code := rc.Finish()
		pprof.StopCPUProfile()
		os.Exit(code)
	case "replay":
		if len(os.Args) < 3 {
			usage()
		}
		bz, err := os.ReadFile(os.Args[2])
		if err != nil {
			fmt.Fprintln(os.Stderr, err)
			os.Exit(2)
		}
		var rf props.ReplayFile
		if err := json.Unmarshal(bz, &rf); err != nil {
			fmt.Fprintln(os.Stderr, err)
			os.Exit(2)
		}
		c := props.Registry[rf.Property]
		if c == nil {
			fmt.Fprintln(os.Stderr, "no check for", rf.Property)
			os.Exit(2)
		}
		// Re-execute the check that produced the file (same tier) and look for the same violation
		// signature; the file's path / detail is the minimal history or input it was found on.
		rc := &props.RunCtx{ID: rf.Property, Tier: rf.Tier, Workers: props.DefaultWorkers(), Start: time.Now(), Level: c.Level}
		rc.Deadline = rc.Start.Add(45 * time.Minute)
		props.Active = rc
		c.Run(rc)
		if rc.HasSignature(rf.Signature) {
			fmt.Printf("REPRODUCED property=%s signature=%s\n  what: %s\n", rf.Property, rf.Signature, rf.What)
			os.Exit(1)
		}
		fmt.Printf("NOT-REPRODUCED property=%s signature=%s (the tree no longer shows this violation)\n", rf.Property, rf.Signature)
		os.Exit(0)
	case "replica":
		if len(os.Args) < 4 {
			usage()
		}
		only := -1
		if len(os.Args) > 4 {
			only, _ = strconv.Atoi(os.Args[4])
		}
		variant := 0
		if len(os.Args) > 5 {
			variant, _ = strconv.Atoi(os.Args[5])
		}
		os.Exit(props.ReplicaMain(os.Args[2], os.Args[3], only, variant))
	case "replica-upgrade":
		if len(os.Args) < 3 {
			usage()
		}
		os.Exit(props.ReplicaUpgradeMain(os.Args[2]))
	case "list":
		var ids []string
		for id := range props.Registry {
			ids = append(ids, id)
		}
		sort.Strings(ids)
		for _, id := range ids {
			fmt.Println(id, props.Registry[id].Level)
		}
	default:
		usage()
	}
}

func usage() {
	fmt.Fprintln(os.Stderr, "usage: c4emc check <Cxx> [--tier quick|thorough] | replay <file> | list")
	os.Exit(2)
}
