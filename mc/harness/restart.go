package harness

import (
	"fmt"
	"runtime/debug"

	cfedistributor "github.com/chain4energy/c4e-chain/x/cfedistributor"
	dtypes "github.com/chain4energy/c4e-chain/x/cfedistributor/types"
	cfeminter "github.com/chain4energy/c4e-chain/x/cfeminter"
	mtypes "github.com/chain4energy/c4e-chain/x/cfeminter/types"
	cfesignature "github.com/chain4energy/c4e-chain/x/cfesignature"
	stypes "github.com/chain4energy/c4e-chain/x/cfesignature/types"
	cfevesting "github.com/chain4energy/c4e-chain/x/cfevesting"
	vtypes "github.com/chain4energy/c4e-chain/x/cfevesting/types"
	sdk "github.com/cosmos/cosmos-sdk/types"
)

// RestartReport describes one module-level export -> JSON -> validate -> wipe -> import round trip.
type RestartReport struct {
	Module       string
	ExportJSON   []byte
	ValidateErr  error
	ImportPanic  string
	Stack        string
	DigestBefore string
	DigestAfter  string
}

func wipeStore(w *World, ctx sdk.Context, name string) {
	st := ctx.KVStore(w.App.GetKey(name))
	var keys [][]byte
	it := st.Iterator(nil, nil)
	for ; it.Valid(); it.Next() {
		keys = append(keys, append([]byte{}, it.Key()...))
	}
	it.Close()
	for _, k := range keys {
		st.Delete(k)
	}
}

// RestartModules performs, on a fresh branch of ctx, what an operator's export/import does to the
// four custom modules: each module's exported ExportGenesis, a JSON round trip, GenesisState.Validate,
// a wiped module store and the exported InitGenesis.
func (w *World) RestartModules(ctx sdk.Context) (sdk.Context, []RestartReport) {
	cc := Branch(ctx)
	cdc := w.App.AppCodec()
	var reps []RestartReport
	run := func(name string, f func(r *RestartReport)) {
		r := RestartReport{Module: name, DigestBefore: StoreDigest(w.App, cc, name)}
		func() {
			defer func() {
				if p := recover(); p != nil {
					r.ImportPanic = fmt.Sprint(p)
					r.Stack = string(debug.Stack())
				}
			}()
			f(&r)
		}()
		r.DigestAfter = StoreDigest(w.App, cc, name)
		reps = append(reps, r)
	}
	run(mtypes.StoreKey, func(r *RestartReport) {
		gs := cfeminter.ExportGenesis(cc, w.App.CfeminterKeeper)
		r.ExportJSON = cdc.MustMarshalJSON(gs)
		var in mtypes.GenesisState
		cdc.MustUnmarshalJSON(r.ExportJSON, &in)
		r.ValidateErr = in.Validate()
		wipeStore(w, cc, mtypes.StoreKey)
		cfeminter.InitGenesis(cc, w.App.CfeminterKeeper, w.App.AccountKeeper, in)
	})
	run(dtypes.StoreKey, func(r *RestartReport) {
		gs := cfedistributor.ExportGenesis(cc, w.App.CfedistributorKeeper)
		r.ExportJSON = cdc.MustMarshalJSON(gs)
		var in dtypes.GenesisState
		cdc.MustUnmarshalJSON(r.ExportJSON, &in)
		r.ValidateErr = in.Validate()
		wipeStore(w, cc, dtypes.StoreKey)
		cfedistributor.InitGenesis(cc, w.App.CfedistributorKeeper, in, w.App.AccountKeeper)
	})
	run(vtypes.StoreKey, func(r *RestartReport) {
		gs := cfevesting.ExportGenesis(cc, w.App.CfevestingKeeper)
		r.ExportJSON = cdc.MustMarshalJSON(gs)
		var in vtypes.GenesisState
		cdc.MustUnmarshalJSON(r.ExportJSON, &in)
		r.ValidateErr = in.Validate()
		wipeStore(w, cc, vtypes.StoreKey)
		cfevesting.InitGenesis(cc, w.App.CfevestingKeeper, in, w.App.AccountKeeper, w.App.BankKeeper, w.App.StakingKeeper)
	})
	run(stypes.StoreKey, func(r *RestartReport) {
		gs := cfesignature.ExportGenesis(cc, w.App.CfesignatureKeeper)
		r.ExportJSON = cdc.MustMarshalJSON(gs)
		var in stypes.GenesisState
		cdc.MustUnmarshalJSON(r.ExportJSON, &in)
		r.ValidateErr = in.Validate()
		wipeStore(w, cc, stypes.StoreKey)
		cfesignature.InitGenesis(cc, w.App.CfesignatureKeeper, in)
	})
	return cc, reps
}
