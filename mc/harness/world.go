// Package harness runs the real c4e-chain application under the model checker.
//
// Two execution modes are provided, bound to each other by conformance replay:
//
//	(A) branching: one real app, every state is a CacheContext branch of the
//	    deliver state; transitions call the real BeginBlocker/EndBlocker and the
//	    handlers registered in the real MsgServiceRouter.
//	(B) ABCI: a fresh app driven strictly through InitChain/BeginBlock/DeliverTx/
//	    EndBlock/Commit with real signed transactions.
package harness

import (
	"crypto/sha256"
	"encoding/hex"
	"encoding/json"
	"fmt"
	"sort"
	"sync"
	"time"

	c4eapp "github.com/chain4energy/c4e-chain/app"
	appparams "github.com/chain4energy/c4e-chain/app/params"
	cfedistributortypes "github.com/chain4energy/c4e-chain/x/cfedistributor/types"
	cfemintertypes "github.com/chain4energy/c4e-chain/x/cfeminter/types"
	cfesignaturetypes "github.com/chain4energy/c4e-chain/x/cfesignature/types"
	cfevestingtypes "github.com/chain4energy/c4e-chain/x/cfevesting/types"
	codectypes "github.com/cosmos/cosmos-sdk/codec/types"
	"github.com/cosmos/cosmos-sdk/crypto/keys/ed25519"
	"github.com/cosmos/cosmos-sdk/crypto/keys/secp256k1"
	cryptotypes "github.com/cosmos/cosmos-sdk/crypto/types"
	"github.com/cosmos/cosmos-sdk/simapp"
	sdk "github.com/cosmos/cosmos-sdk/types"
	authtypes "github.com/cosmos/cosmos-sdk/x/auth/types"
	banktypes "github.com/cosmos/cosmos-sdk/x/bank/types"
	govtypes "github.com/cosmos/cosmos-sdk/x/gov/types"
	govv1 "github.com/cosmos/cosmos-sdk/x/gov/types/v1"
	stakingtypes "github.com/cosmos/cosmos-sdk/x/staking/types"
	abci "github.com/tendermint/tendermint/abci/types"
	"github.com/tendermint/tendermint/libs/log"
	tmproto "github.com/tendermint/tendermint/proto/tendermint/types"
	dbm "github.com/tendermint/tm-db"
)

const (
	Denom   = appparams.CoinDenom // uc4e
	ChainID = "c4emc-1"
)

// T0 is the fixed scenario origin. No wall clock is read anywhere.
var T0 = time.Date(2023, 11, 14, 22, 13, 20, 0, time.UTC)

// Key returns the deterministic secp256k1 key of a label.
func Key(label string) *secp256k1.PrivKey {
	h := sha256.Sum256([]byte("c4emc-key:" + label))
	return &secp256k1.PrivKey{Key: h[:]}
}

var addrCache, addrSCache sync.Map // label -> sdk.AccAddress / bech32 string (deriving a public key costs ~50 us)

// Addr is the account address of a label.
func Addr(label string) sdk.AccAddress {
	if a, ok := addrCache.Load(label); ok {
		return append(sdk.AccAddress(nil), a.(sdk.AccAddress)...)
	}
	a := sdk.AccAddress(Key(label).PubKey().Address())
	addrCache.Store(label, a)
	return append(sdk.AccAddress(nil), a...)
}

// AddrS is the bech32 form.
func AddrS(label string) string {
	if s, ok := addrSCache.Load(label); ok {
		return s.(string)
	}
	s := Addr(label).String()
	addrSCache.Store(label, s)
	return s
}

func ModAddr(name string) sdk.AccAddress { return authtypes.NewModuleAddress(name) }

func GovAuthority() string { return appparams.GetAuthority() }

func valKey() *ed25519.PrivKey {
	h := sha256.Sum256([]byte("c4emc-validator"))
	return ed25519.GenPrivKeyFromSecret(h[:])
}

// ValAddr is the operator address of the single genesis validator.
func ValAddr() sdk.ValAddress { return sdk.ValAddress(valKey().PubKey().Address()) }

// Genesis describes a scenario's initial state. Everything not mentioned takes the
// module's default genesis, except the four custom modules which are always explicit
// (cfeminter's default reads the wall clock).
type Genesis struct {
	Time      time.Time
	Balances  map[string]sdk.Coins              // label -> coins (base accounts with known keys)
	Accounts  []authtypes.GenesisAccount        // extra accounts (vesting accounts, ...) with explicit balances below
	ExtraBal  []banktypes.Balance               // balances for Accounts / module accounts
	Minter    *cfemintertypes.GenesisState      // nil => single NoMinting period
	Distr     *cfedistributortypes.GenesisState // nil => default (MAIN -> validators_rewards_collector)
	Vesting   *cfevestingtypes.GenesisState     // nil => params denom only
	Signature *cfesignaturetypes.GenesisState
	// VotingPeriod for gov (default 2s) so that real proposals can run inside a trace.
	VotingPeriod time.Duration
	// Delegations from arbitrary accounts to the genesis validator.
	Delegations map[string]sdk.Int // bech32 address -> amount
	// UnbondingTime of x/staking (default: the SDK's three weeks), so that an undelegation can
	// complete inside a trace.
	UnbondingTime time.Duration
	// NoFeeSweep makes SDK x/distribution inert is not possible; see FullBlock docs.
}

// NoMintingGenesis is a minter genesis that never mints.
func NoMintingGenesis(t time.Time) *cfemintertypes.GenesisState {
	cfg, err := codectypes.NewAnyWithValue(&cfemintertypes.NoMinting{})
	if err != nil {
		panic(err)
	}
	return &cfemintertypes.GenesisState{
		Params: cfemintertypes.Params{MintDenom: Denom, StartTime: t, Minters: []*cfemintertypes.Minter{{SequenceId: 1, Config: cfg}}},
		MinterState: cfemintertypes.MinterState{SequenceId: 1, AmountMinted: sdk.ZeroInt(), RemainderToMint: sdk.ZeroDec(),
			RemainderFromPreviousMinter: sdk.ZeroDec(), LastMintBlockTime: t},
	}
}

// DefaultDistrGenesis routes MAIN to the validators rewards collector.
func DefaultDistrGenesis() *cfedistributortypes.GenesisState {
	return &cfedistributortypes.GenesisState{Params: cfedistributortypes.Params{SubDistributors: []cfedistributortypes.SubDistributor{{
		Name:         "default_distributor",
		Sources:      []*cfedistributortypes.Account{{Id: "", Type: cfedistributortypes.Main}},
		Destinations: cfedistributortypes.Destinations{PrimaryShare: cfedistributortypes.Account{Id: cfedistributortypes.ValidatorsRewardsCollector, Type: cfedistributortypes.ModuleAccount}, BurnShare: sdk.ZeroDec()},
	}}}}
}

var encCfg = c4eapp.MakeEncodingConfig()

// Enc returns the shared encoding config (read-only use).
func Enc() appparams.EncodingConfig { return appparams.EncodingConfig(encCfg) }

// BuildGenesis renders the genesis JSON. It must be called single-threaded (module default
// genesis functions share package-level values that JSON marshalling mutates).
func BuildGenesis(g Genesis) []byte {
	cdc := encCfg.Marshaler
	gs := c4eapp.NewDefaultGenesisState(cdc)
	if g.Time.IsZero() {
		g.Time = T0
	}

	// accounts and balances
	var accs []authtypes.GenesisAccount
	var bals []banktypes.Balance
	labels := make([]string, 0, len(g.Balances))
	for l := range g.Balances {
		labels = append(labels, l)
	}
	sort.Strings(labels)
	for _, l := range labels {
		accs = append(accs, authtypes.NewBaseAccount(Addr(l), nil, 0, 0))
		if !g.Balances[l].IsZero() {
			bals = append(bals, banktypes.Balance{Address: AddrS(l), Coins: g.Balances[l]})
		}
	}
	// delegator that backs the validator
	deleg := "genesis-delegator"
	accs = append(accs, authtypes.NewBaseAccount(Addr(deleg), nil, 0, 0))
	accs = append(accs, g.Accounts...)
	bals = append(bals, g.ExtraBal...)

	bondAmt := sdk.DefaultPowerReduction
	pk := valKey().PubKey()
	pkAny, err := codectypes.NewAnyWithValue(pk)
	if err != nil {
		panic(err)
	}
	totalBonded := bondAmt
	totalShares := sdk.NewDecFromInt(bondAmt)
	delegations := []stakingtypes.Delegation{stakingtypes.NewDelegation(Addr(deleg), ValAddr(), sdk.NewDecFromInt(bondAmt))}
	dAddrs := make([]string, 0, len(g.Delegations))
	for a := range g.Delegations {
		dAddrs = append(dAddrs, a)
	}
	sort.Strings(dAddrs)
	for _, a := range dAddrs {
		amt := g.Delegations[a]
		aa, err := sdk.AccAddressFromBech32(a)
		if err != nil {
			panic(err)
		}
		delegations = append(delegations, stakingtypes.NewDelegation(aa, ValAddr(), sdk.NewDecFromInt(amt)))
		totalBonded = totalBonded.Add(amt)
		totalShares = totalShares.Add(sdk.NewDecFromInt(amt))
	}
	validator := stakingtypes.Validator{
		OperatorAddress: ValAddr().String(), ConsensusPubkey: pkAny, Status: stakingtypes.Bonded,
		Tokens: totalBonded, DelegatorShares: totalShares, UnbondingTime: time.Unix(0, 0).UTC(),
		Commission: stakingtypes.NewCommission(sdk.ZeroDec(), sdk.ZeroDec(), sdk.ZeroDec()), MinSelfDelegation: sdk.ZeroInt(),
	}
	sp := stakingtypes.DefaultParams()
	if g.UnbondingTime > 0 {
		sp.UnbondingTime = g.UnbondingTime
	}
	sp.BondDenom = Denom
	gs[stakingtypes.ModuleName] = cdc.MustMarshalJSON(stakingtypes.NewGenesisState(sp, []stakingtypes.Validator{validator}, delegations))
	bals = append(bals, banktypes.Balance{Address: ModAddr(stakingtypes.BondedPoolName).String(), Coins: sdk.NewCoins(sdk.NewCoin(Denom, totalBonded))})

	gs[authtypes.ModuleName] = cdc.MustMarshalJSON(authtypes.NewGenesisState(authtypes.DefaultParams(), accs))
	total := sdk.NewCoins()
	for _, b := range bals {
		total = total.Add(b.Coins...)
	}
	gs[banktypes.ModuleName] = cdc.MustMarshalJSON(banktypes.NewGenesisState(banktypes.DefaultGenesisState().Params, banktypes.SanitizeGenesisBalances(bals), total, nil))

	vp := g.VotingPeriod
	if vp == 0 {
		vp = 2 * time.Second
	}
	gg := govv1.DefaultGenesisState()
	gg.VotingParams.VotingPeriod = &vp
	gg.DepositParams.MinDeposit = sdk.NewCoins(sdk.NewCoin(Denom, sdk.NewInt(1)))
	gs[govtypes.ModuleName] = cdc.MustMarshalJSON(gg)

	if g.Minter == nil {
		g.Minter = NoMintingGenesis(g.Time)
	}
	gs[cfemintertypes.ModuleName] = cdc.MustMarshalJSON(g.Minter)
	if g.Distr == nil {
		g.Distr = DefaultDistrGenesis()
	}
	gs[cfedistributortypes.ModuleName] = cdc.MustMarshalJSON(g.Distr)
	if g.Vesting == nil {
		g.Vesting = &cfevestingtypes.GenesisState{Params: cfevestingtypes.Params{Denom: Denom}, VestingAccountTraces: []cfevestingtypes.VestingAccountTrace{}}
	}
	gs[cfevestingtypes.ModuleName] = cdc.MustMarshalJSON(g.Vesting)
	if g.Signature != nil {
		gs[cfesignaturetypes.ModuleName] = cdc.MustMarshalJSON(g.Signature)
	}
	bz, err := json.Marshal(gs)
	if err != nil {
		panic(err)
	}
	return bz
}

// World is one real application instance with an open first block.
type World struct {
	App    *c4eapp.App
	Header tmproto.Header // header of the currently open block
	T0     time.Time
	DB     dbm.DB // the application's database (a restart builds a new application over it)
}

func newApp() *c4eapp.App { return reopenApp(dbm.NewMemDB()) }

// reopenApp builds an application object over db and loads the latest committed version (an empty
// database gives a fresh application).
func reopenApp(db dbm.DB) *c4eapp.App {
	return c4eapp.New(log.NewNopLogger(), db, nil, true, map[int64]bool{}, c4eapp.DefaultNodeHome, 0,
		appparams.EncodingConfig(c4eapp.MakeEncodingConfig()), simapp.EmptyAppOptions{})
}

// NewWorld initialises an app from genesis bytes through the real InitChain, commits, and
// opens block (initial height) at genesis time.
func NewWorld(genesis []byte, t0 time.Time) *World {
	return NewWorldAt(genesis, t0, 1)
}

func NewWorldAt(genesis []byte, t0 time.Time, initialHeight int64) *World {
	db := dbm.NewMemDB()
	app := reopenApp(db)
	app.InitChain(abci.RequestInitChain{
		ChainId: ChainID, Time: t0, InitialHeight: initialHeight,
		ConsensusParams: simapp.DefaultConsensusParams, AppStateBytes: genesis,
	})
	app.Commit()
	w := &World{App: app, T0: t0, DB: db}
	w.Header = tmproto.Header{ChainID: ChainID, Height: app.LastBlockHeight() + 1, Time: t0}
	if initialHeight > 1 && w.Header.Height < initialHeight {
		w.Header.Height = initialHeight
	}
	app.BeginBlock(abci.RequestBeginBlock{Header: w.Header})
	return w
}

// Root is the deliver-state context of the open block.
func (w *World) Root() sdk.Context {
	return w.App.BaseApp.NewContext(false, w.Header).WithEventManager(sdk.NewEventManager())
}

// StoreNames are the stores whose contents define state identity.
var StoreNames = []string{
	cfemintertypes.StoreKey, cfedistributortypes.StoreKey, cfevestingtypes.StoreKey, cfesignaturetypes.StoreKey,
	banktypes.StoreKey, authtypes.StoreKey,
}

// Digest hashes the ordered contents of the given stores plus the block time relative to T0.
func Digest(app *c4eapp.App, ctx sdk.Context, t0 time.Time, extra ...string) string {
	h := sha256.New()
	names := append(append([]string{}, StoreNames...), extra...)
	for _, n := range names {
		h.Write([]byte{0xff})
		h.Write([]byte(n))
		hashStore(h, ctx, app, n)
	}
	fmt.Fprintf(h, "|t=%d", ctx.BlockTime().Sub(t0))
	return hex.EncodeToString(h.Sum(nil)[:16])
}

type writer interface{ Write([]byte) (int, error) }

func hashStore(h writer, ctx sdk.Context, app *c4eapp.App, name string) {
	hashStoreSkip(h, ctx, app, name, nil)
}

func hashStoreSkip(h writer, ctx sdk.Context, app *c4eapp.App, name string, skip func(store string, key []byte) bool) {
	st := ctx.KVStore(app.GetKey(name))
	it := st.Iterator(nil, nil)
	defer it.Close()
	var lb [8]byte
	for ; it.Valid(); it.Next() {
		k, v := it.Key(), it.Value()
		if skip != nil && skip(name, k) {
			continue
		}
		putLen(lb[:], len(k))
		h.Write(lb[:])
		h.Write(k)
		putLen(lb[:], len(v))
		h.Write(lb[:])
		h.Write(v)
	}
}

func putLen(b []byte, n int) {
	for i := 0; i < 8; i++ {
		b[i] = byte(n >> (8 * i))
	}
}

// DigestMasked is Digest without the auth record of one address (the signer, whose sequence and
// public key are touched by the ante handler even when the message is rejected).
func DigestMasked(app *c4eapp.App, ctx sdk.Context, t0 time.Time, maskAuth sdk.AccAddress, extra ...string) string {
	h := sha256.New()
	names := append(append([]string{}, StoreNames...), extra...)
	key := authtypes.AddressStoreKey(maskAuth)
	for _, n := range names {
		h.Write([]byte{0xff})
		h.Write([]byte(n))
		hashStoreSkip(h, ctx, app, n, func(store string, k []byte) bool {
			return store == authtypes.StoreKey && string(k) == string(key)
		})
	}
	fmt.Fprintf(h, "|t=%d", ctx.BlockTime().Sub(t0))
	return hex.EncodeToString(h.Sum(nil)[:16])
}

// StoreDigest hashes one store.
func StoreDigest(app *c4eapp.App, ctx sdk.Context, name string) string {
	h := sha256.New()
	hashStore(h, ctx, app, name)
	return hex.EncodeToString(h.Sum(nil)[:16])
}

// DumpStore returns the raw key/value pairs of a store (hex keys) for diagnostics and byte-exact comparison.
func DumpStore(app *c4eapp.App, ctx sdk.Context, name string) map[string]string {
	out := map[string]string{}
	st := ctx.KVStore(app.GetKey(name))
	it := st.Iterator(nil, nil)
	defer it.Close()
	for ; it.Valid(); it.Next() {
		out[hex.EncodeToString(it.Key())] = hex.EncodeToString(it.Value())
	}
	return out
}

var _ cryptotypes.PubKey = (*secp256k1.PubKey)(nil)
