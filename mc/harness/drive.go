package harness

import (
	"fmt"
	"reflect"
	"runtime/debug"
	"strings"
	"time"

	sigkeeper "github.com/chain4energy/c4e-chain/x/cfesignature/keeper"
	sigtypes "github.com/chain4energy/c4e-chain/x/cfesignature/types"
	"github.com/cosmos/cosmos-sdk/client/tx"
	"github.com/cosmos/cosmos-sdk/codec"
	sdk "github.com/cosmos/cosmos-sdk/types"
	sdkerrors "github.com/cosmos/cosmos-sdk/types/errors"
	"github.com/cosmos/cosmos-sdk/types/tx/signing"
	authsigning "github.com/cosmos/cosmos-sdk/x/auth/signing"
	abci "github.com/tendermint/tendermint/abci/types"
	tmproto "github.com/tendermint/tendermint/proto/tendermint/types"
)

type Class int

const (
	OK      Class = iota
	Err           // handler / ante returned an error
	Panic         // handler panicked (recovered)
	Invalid       // ValidateBasic rejected the message (nothing ran)
)

func (c Class) String() string { return [...]string{"ok", "err", "panic", "invalid"}[c] }

// Outcome of one transition.
type Outcome struct {
	Class     Class
	Codespace string
	Code      uint32
	Log       string
	Events    []abci.Event
	Resp      interface{} // message response (mode A) when OK
	Stack     string
}

func (o Outcome) Key() string {
	if o.Class == Err {
		return fmt.Sprintf("err:%s/%d", o.Codespace, o.Code)
	}
	return o.Class.String()
}

func errOutcome(err error) Outcome {
	cs, code, log := sdkerrors.ABCIInfo(err, false)
	return Outcome{Class: Err, Codespace: cs, Code: code, Log: log}
}

// ---------------------------------------------------------------------------------------------
// (A) branching driver

// Branch returns a child context whose writes never reach ctx.
func Branch(ctx sdk.Context) sdk.Context {
	cc, _ := ctx.CacheContext()
	return cc.WithEventManager(sdk.NewEventManager())
}

// NextBlock closes the open block (real EndBlocker of all modules) and opens the next one at
// time+dt (real BeginBlocker of all modules) on a fresh branch of ctx.
func (w *World) NextBlock(ctx sdk.Context, dt time.Duration) (next sdk.Context, out Outcome) {
	cc := Branch(ctx)
	defer func() {
		if r := recover(); r != nil {
			out = Outcome{Class: Panic, Log: fmt.Sprint(r), Stack: string(debug.Stack())}
			next = cc
		}
	}()
	eb := w.App.EndBlocker(cc, abci.RequestEndBlock{Height: cc.BlockHeight()})
	hdr := cc.BlockHeader()
	hdr.Height++
	hdr.Time = hdr.Time.Add(dt)
	cc = cc.WithBlockHeader(hdr)
	bb := w.App.BeginBlocker(cc, abci.RequestBeginBlock{Header: hdr})
	// the module manager runs the blockers on its own event manager and returns the events
	evs := append(append(cc.EventManager().ABCIEvents(), eb.Events...), bb.Events...)
	return cc, Outcome{Class: OK, Events: evs}
}

// ModuleBlock advances block time by dt on a fresh branch and runs f (one module's BeginBlocker).
func (w *World) ModuleBlock(ctx sdk.Context, dt time.Duration, f func(sdk.Context)) (next sdk.Context, out Outcome) {
	cc := Branch(ctx)
	hdr := cc.BlockHeader()
	hdr.Height++
	hdr.Time = hdr.Time.Add(dt)
	cc = cc.WithBlockHeader(hdr)
	defer func() {
		if r := recover(); r != nil {
			out = Outcome{Class: Panic, Log: fmt.Sprint(r), Stack: string(debug.Stack())}
			next = cc
		}
	}()
	f(cc)
	return cc, Outcome{Class: OK, Events: cc.EventManager().ABCIEvents()}
}

// SigSeam reports whether cfesignature messages have to be driven through the exported msg
// server because the application does not route them.
func (w *World) SigSeam() bool {
	return w.App.MsgServiceRouter().Handler(&sigtypes.MsgStoreSignature{}) == nil
}

func (w *World) handler(msg sdk.Msg) func(ctx sdk.Context, msg sdk.Msg) (*sdk.Result, error) {
	if h := w.App.MsgServiceRouter().Handler(msg); h != nil {
		return h
	}
	srv := sigkeeper.NewMsgServerImpl(w.App.CfesignatureKeeper)
	switch msg.(type) {
	case *sigtypes.MsgStoreSignature, *sigtypes.MsgPublishReferencePayloadLink, *sigtypes.MsgCreateAccount:
		return func(ctx sdk.Context, m sdk.Msg) (*sdk.Result, error) {
			var resp interface{}
			var err error
			switch mm := m.(type) {
			case *sigtypes.MsgStoreSignature:
				resp, err = srv.StoreSignature(sdk.WrapSDKContext(ctx), mm)
			case *sigtypes.MsgPublishReferencePayloadLink:
				resp, err = srv.PublishReferencePayloadLink(sdk.WrapSDKContext(ctx), mm)
			case *sigtypes.MsgCreateAccount:
				resp, err = srv.CreateAccount(sdk.WrapSDKContext(ctx), mm)
			}
			if err != nil {
				return nil, err
			}
			_ = resp
			return &sdk.Result{Events: ctx.EventManager().ABCIEvents()}, nil
		}
	}
	return nil
}

// Wire passes a message through the protobuf encoding a transaction carries (marshal, unmarshal,
// UnpackInterfaces): what a handler sees on chain is the decoded form (e.g. an empty repeated
// field arrives as nil). A message that cannot be encoded is returned unchanged.
func (w *World) Wire(msg sdk.Msg) (out sdk.Msg) {
	out = msg
	defer func() {
		if r := recover(); r != nil {
			out = msg
		}
	}()
	pm, ok := msg.(codec.ProtoMarshaler)
	if !ok {
		return msg
	}
	bz, err := w.App.AppCodec().Marshal(pm)
	if err != nil {
		return msg
	}
	fresh, ok := reflect.New(reflect.TypeOf(msg).Elem()).Interface().(codec.ProtoMarshaler)
	if !ok {
		return msg
	}
	if err := w.App.AppCodec().Unmarshal(bz, fresh); err != nil {
		return msg
	}
	if m, ok := fresh.(sdk.Msg); ok {
		return m
	}
	return msg
}

// ExecOpts controls how a message is run in mode A.
type ExecOpts struct {
	// Ante emulates what the real ante handler persists even when the message fails:
	// the signer's sequence is incremented and its public key set. Fee is moved to the fee collector.
	Ante   bool
	Signer string // label of the signing key (for Ante)
	Fee    sdk.Coins
	// SkipValidateBasic runs the handler even if ValidateBasic fails (never used for conformance).
	SkipValidateBasic bool
	// Then: further messages of the same atomic unit (one transaction / one governance proposal):
	// they run after the first on the same branch and everything is dropped unless all succeed.
	Then []sdk.Msg
}

// ExecMsg runs one message on a fresh branch of ctx with baseapp's commit rule: handler effects
// persist only if it returned no error and did not panic.
func (w *World) ExecMsg(ctx sdk.Context, msg sdk.Msg, o ExecOpts) (next sdk.Context, out Outcome) {
	cc := Branch(ctx)
	msgs := []sdk.Msg{w.Wire(msg)}
	for _, m := range o.Then {
		msgs = append(msgs, w.Wire(m))
	}
	if !o.SkipValidateBasic {
		for _, m := range msgs {
			var vbErr error
			func() {
				defer func() {
					if r := recover(); r != nil {
						out = Outcome{Class: Panic, Log: "ValidateBasic: " + fmt.Sprint(r), Stack: string(debug.Stack())}
					}
				}()
				vbErr = m.ValidateBasic()
			}()
			if out.Class == Panic {
				return cc, out
			}
			if vbErr != nil {
				o2 := errOutcome(vbErr)
				o2.Class = Invalid
				return cc, o2
			}
		}
	}
	if o.Ante {
		if fail := w.anteEmu(cc, o); fail != nil {
			return Branch(ctx), *fail
		}
	}
	for _, m := range msgs {
		if w.handler(m) == nil {
			return cc, Outcome{Class: Err, Codespace: sdkerrors.RootCodespace, Code: sdkerrors.ErrUnknownRequest.ABCICode(), Log: "unrecognized message route"}
		}
	}
	mc, write := cc.CacheContext()
	mc = mc.WithEventManager(sdk.NewEventManager())
	func() {
		defer func() {
			if r := recover(); r != nil {
				out = Outcome{Class: Panic, Log: fmt.Sprint(r), Stack: string(debug.Stack())}
			}
		}()
		var evs []abci.Event
		var last *sdk.Result
		for _, m := range msgs {
			res, err := w.handler(m)(mc, m)
			if err != nil {
				out = errOutcome(err)
				return
			}
			evs = append(evs, mc.EventManager().ABCIEvents()...)
			mc = mc.WithEventManager(sdk.NewEventManager())
			if res != nil {
				// the msg service router runs the handler on its own event manager and returns the events in the result
				evs = append(evs, res.Events...)
			}
			last = res
		}
		out = Outcome{Class: OK, Events: evs, Resp: last}
	}()
	if out.Class == OK {
		write()
	}
	return cc, out
}

// anteEmu applies, on cc, the persistent effects of the real ante handler chain for a
// single-signer transaction: fee deduction, public key, sequence increment.
func (w *World) anteEmu(cc sdk.Context, o ExecOpts) *Outcome {
	addr := Addr(o.Signer)
	acc := w.App.AccountKeeper.GetAccount(cc, addr)
	if acc == nil {
		return &Outcome{Class: Err, Codespace: sdkerrors.RootCodespace, Code: sdkerrors.ErrUnknownAddress.ABCICode(), Log: "signer account does not exist"}
	}
	if !o.Fee.IsZero() {
		if err := w.App.BankKeeper.SendCoinsFromAccountToModule(cc, addr, "fee_collector", o.Fee); err != nil {
			oc := errOutcome(sdkerrors.Wrap(sdkerrors.ErrInsufficientFunds, err.Error()))
			return &oc
		}
		acc = w.App.AccountKeeper.GetAccount(cc, addr)
	}
	if acc.GetPubKey() == nil {
		if err := acc.SetPubKey(Key(o.Signer).PubKey()); err != nil {
			panic(err)
		}
	}
	if err := acc.SetSequence(acc.GetSequence() + 1); err != nil {
		panic(err)
	}
	w.App.AccountKeeper.SetAccount(cc, acc)
	return nil
}

// ---------------------------------------------------------------------------------------------
// (B) ABCI driver

// Node drives a real application strictly through the ABCI surface.
type Node struct {
	*World
	Hashes [][]byte // app hash per committed height
	// Transcript, when non-nil, receives one canonical line per ABCI response restricted to the
	// fields ABCI defines as deterministic (code, codespace, data, gas, events, app hash).
	Transcript *[]string
	// RestartEachBlock: after every Commit the application object is thrown away and a new one is
	// built over the same database (what a node restart does): everything that is not chain state is lost.
	RestartEachBlock bool
	// SimulateNoise: every transaction is also run through CheckTx and Simulate before and after
	// it is delivered (what a node with a mempool and a gas-estimating client does): handlers run on
	// states that are thrown away.
	SimulateNoise bool
	Restarts      int
}

func (n *Node) rec(kind string, code uint32, codespace string, data []byte, gw, gu int64, evs []abci.Event, hash []byte) {
	if n.Transcript == nil {
		return
	}
	var sb strings.Builder
	fmt.Fprintf(&sb, "%s code=%d cs=%s data=%x gas=%d/%d hash=%x", kind, code, codespace, data, gw, gu, hash)
	for _, e := range evs {
		sb.WriteString(" [" + e.Type)
		for _, a := range e.Attributes {
			fmt.Fprintf(&sb, " %s=%s", a.Key, a.Value)
		}
		sb.WriteString("]")
	}
	*n.Transcript = append(*n.Transcript, sb.String())
}

func NewNode(genesis []byte, t0 time.Time) *Node { return &Node{World: NewWorld(genesis, t0)} }

func NewNodeAt(genesis []byte, t0 time.Time, h int64) *Node {
	return &Node{World: NewWorldAt(genesis, t0, h)}
}

// Ctx is the deliver-state context (valid between BeginBlock and Commit).
func (n *Node) Ctx() sdk.Context { return n.Root() }

// NextBlock = EndBlock + Commit of the open block, BeginBlock of the next one.
func (n *Node) NextBlock(dt time.Duration) (out Outcome) {
	defer func() {
		if r := recover(); r != nil {
			out = Outcome{Class: Panic, Log: fmt.Sprint(r), Stack: string(debug.Stack())}
		}
	}()
	eb := n.App.EndBlock(abci.RequestEndBlock{Height: n.Header.Height})
	n.rec("endblock", 0, "", nil, 0, 0, eb.Events, nil)
	c := n.App.Commit()
	n.rec("commit", 0, "", nil, 0, 0, nil, c.Data)
	n.Hashes = append(n.Hashes, c.Data)
	if n.RestartEachBlock {
		n.App = reopenApp(n.DB)
		n.Restarts++
	}
	n.Header = tmproto.Header{ChainID: ChainID, Height: n.Header.Height + 1, Time: n.Header.Time.Add(dt), AppHash: c.Data}
	bb := n.App.BeginBlock(abci.RequestBeginBlock{Header: n.Header})
	n.rec("beginblock", 0, "", nil, 0, 0, bb.Events, nil)
	return Outcome{Class: OK, Events: append(eb.Events, bb.Events...)}
}

// SignTx builds real signed transaction bytes for one message.
func (n *Node) SignTx(msg sdk.Msg, signer string, fee sdk.Coins) ([]byte, error) {
	return SignTxWith(n.Ctx(), n.World, []sdk.Msg{msg}, signer, fee)
}

func SignTxWith(ctx sdk.Context, w *World, msgs []sdk.Msg, signer string, fee sdk.Coins) ([]byte, error) {
	txCfg := encCfg.TxConfig
	priv := Key(signer)
	acc := w.App.AccountKeeper.GetAccount(ctx, Addr(signer))
	if acc == nil {
		return nil, fmt.Errorf("signer %s has no account", signer)
	}
	b := txCfg.NewTxBuilder()
	if err := b.SetMsgs(msgs...); err != nil {
		return nil, err
	}
	b.SetGasLimit(50_000_000)
	b.SetFeeAmount(fee)
	mode := txCfg.SignModeHandler().DefaultMode()
	sigV2 := signing.SignatureV2{PubKey: priv.PubKey(), Data: &signing.SingleSignatureData{SignMode: mode}, Sequence: acc.GetSequence()}
	if err := b.SetSignatures(sigV2); err != nil {
		return nil, err
	}
	sd := authsigning.SignerData{ChainID: ChainID, AccountNumber: acc.GetAccountNumber(), Sequence: acc.GetSequence(), PubKey: priv.PubKey(), Address: Addr(signer).String()}
	sig, err := tx.SignWithPrivKey(mode, sd, b, priv, txCfg, acc.GetSequence())
	if err != nil {
		return nil, err
	}
	if err := b.SetSignatures(sig); err != nil {
		return nil, err
	}
	return txCfg.TxEncoder()(b.GetTx())
}

// DeliverMsg signs and delivers one message as a real transaction.
func (n *Node) DeliverMsg(msg sdk.Msg, signer string, fee sdk.Coins) (out Outcome) {
	return n.DeliverMsgs([]sdk.Msg{msg}, signer, fee)
}

// DeliverMsgs signs and delivers one real transaction carrying all the messages.
func (n *Node) DeliverMsgs(msgs []sdk.Msg, signer string, fee sdk.Coins) (out Outcome) {
	var bz []byte
	var err error
	func() {
		defer func() {
			if r := recover(); r != nil {
				err = fmt.Errorf("cannot build transaction: %v", r)
			}
		}()
		bz, err = SignTxWith(n.Ctx(), n.World, msgs, signer, fee)
	}()
	if err != nil {
		// a message that cannot even be put into a transaction (e.g. unparsable signer) never reaches the chain
		o := Outcome{Class: Err, Codespace: "harness", Code: 1, Log: err.Error()}
		func() {
			defer func() { _ = recover() }()
			for _, m := range msgs {
				if m.ValidateBasic() != nil {
					o.Class = Invalid
				}
			}
		}()
		return o
	}
	return n.deliverTxBytes(bz, msgs)
}

func (n *Node) DeliverTxBytes(bz []byte, msg sdk.Msg) Outcome {
	if msg == nil {
		return n.deliverTxBytes(bz, nil)
	}
	return n.deliverTxBytes(bz, []sdk.Msg{msg})
}

func (n *Node) noise(bz []byte) {
	if !n.SimulateNoise {
		return
	}
	func() {
		defer func() { _ = recover() }()
		n.App.CheckTx(abci.RequestCheckTx{Tx: bz, Type: abci.CheckTxType_New})
		_, _, _ = n.App.Simulate(bz)
	}()
}

func (n *Node) deliverTxBytes(bz []byte, msgs []sdk.Msg) Outcome {
	n.noise(bz)
	defer n.noise(bz)
	r := n.App.DeliverTx(abci.RequestDeliverTx{Tx: bz})
	n.rec("delivertx", r.Code, r.Codespace, r.Data, r.GasWanted, r.GasUsed, r.Events, nil)
	if r.Code == 0 {
		return Outcome{Class: OK, Events: r.Events, Log: r.Log, Resp: r.Data}
	}
	if r.Codespace == sdkerrors.RootCodespace && r.Code == sdkerrors.ErrPanic.ABCICode() {
		return Outcome{Class: Panic, Log: r.Log, Codespace: r.Codespace, Code: r.Code}
	}
	o := Outcome{Class: Err, Codespace: r.Codespace, Code: r.Code, Log: r.Log}
	// runTx validates messages before the ante handler: no persistent effect at all.
	func() {
		defer func() { _ = recover() }()
		for _, m := range msgs {
			if m.ValidateBasic() != nil {
				o.Class = Invalid
			}
		}
	}()
	return o
}

// GovExec executes an authority message the way x/gov's EndBlocker does: handler from the real
// router on a cache branch of the deliver state, written back only on success. No panic recovery
// exists on that path in SDK 0.46, so a panic is reported as such.
func (n *Node) GovExec(msg sdk.Msg) (out Outcome) { return n.GovExecAll([]sdk.Msg{msg}) }

// GovExecAll executes the messages of one proposal: all on one cache branch, written back only
// if every one of them succeeds.
func (n *Node) GovExecAll(in []sdk.Msg) (out Outcome) {
	ctx := n.Ctx()
	msgs := make([]sdk.Msg, len(in))
	for i, m := range in {
		msgs[i] = n.Wire(m)
		if n.handler(msgs[i]) == nil {
			return Outcome{Class: Err, Codespace: sdkerrors.RootCodespace, Code: sdkerrors.ErrUnknownRequest.ABCICode()}
		}
	}
	for _, msg := range msgs {
		var vbErr error
		func() {
			defer func() {
				if r := recover(); r != nil {
					out = Outcome{Class: Panic, Log: "ValidateBasic: " + fmt.Sprint(r)}
				}
			}()
			vbErr = msg.ValidateBasic()
		}()
		if out.Class == Panic {
			return out
		}
		if vbErr != nil {
			o := errOutcome(vbErr)
			o.Class = Invalid
			return o
		}
	}
	mc, write := ctx.CacheContext()
	mc = mc.WithEventManager(sdk.NewEventManager())
	defer func() {
		if r := recover(); r != nil {
			out = Outcome{Class: Panic, Log: fmt.Sprint(r), Stack: string(debug.Stack())}
		}
	}()
	var evs []abci.Event
	var last *sdk.Result
	for _, msg := range msgs {
		res, err := n.handler(msg)(mc, msg)
		if err != nil {
			o := errOutcome(err)
			n.rec("govexec", o.Code, o.Codespace, nil, 0, 0, nil, nil)
			return o
		}
		evs = append(evs, mc.EventManager().ABCIEvents()...)
		mc = mc.WithEventManager(sdk.NewEventManager())
		if res != nil {
			evs = append(evs, res.Events...)
		}
		last = res
	}
	write()
	n.rec("govexec", 0, "", nil, 0, 0, evs, nil)
	return Outcome{Class: OK, Events: evs, Resp: last}
}

// EventsOfType filters ABCI events by (proto full name or plain) type.
func EventsOfType(evs []abci.Event, typ string) []abci.Event {
	var out []abci.Event
	for _, e := range evs {
		if e.Type == typ {
			out = append(out, e)
		}
	}
	return out
}

// Attr returns an event attribute with surrounding JSON quotes removed.
func Attr(e abci.Event, key string) (string, bool) {
	for _, a := range e.Attributes {
		if string(a.Key) == key {
			return strings.Trim(string(a.Value), "\""), true
		}
	}
	return "", false
}
