#!/bin/bash
# runs every registered check (or the ids given after the tier) at the given tier, one after the other;
# prints one line per check.  usage: run_all.sh [quick|thorough] [Cxx ...]
TIER=${1:-quick}
shift
IDS="$*"
cd "$(dirname "$0")" && HERE=$(pwd) && export VERIF_DIR=$HERE && ./run.sh build || exit 2
export GOMAXPROCS=${GOMAXPROCS:-16} GOGC=${GOGC:-300} GOMEMLIMIT=${GOMEMLIMIT:-24GiB}
rc=0
[ -n "$IDS" ] || IDS=$(python3 -c "import json;print(' '.join(c['property_id'] for c in json.load(open('MANIFEST.json'))['checks']))")
for id in $IDS; do
  s=$(date +%s)
  out=$($HERE/.build/c4emc check $id --tier $TIER 2>/dev/null); e=$?
  echo "$id exit=$e $(( $(date +%s)-s ))s $(echo "$out" | grep -c '^KNOWN-FINDING') known $(echo "$out" | grep -c '^VIOLATION') violations"
  [ $e -ne 0 ] && rc=1 && echo "$out" | grep -A2 '^VIOLATION\|MACHINERY' | head -12
done
exit $rc
