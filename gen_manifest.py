#!/usr/bin/env python3
"""Regenerates /verif/MANIFEST.json from the table below (kept in one place so the manifest is
always valid). Run after adding a check:  python3 gen_manifest.py"""
import json, subprocess, os

HERE = os.path.dirname(os.path.abspath(__file__))

# id -> (level category, technique, level text, level note, design ref)
CHECKS = {
 "C05": ("model_checking",
         "explicit-state BFS over real-store branches + ABCI conformance replay",
         "Every history of <= d events (quick d=5, thorough d=6) over a 39-letter alphabet of create-pool / withdraw / send / direct creation / split / move / block-time events is executed on the real application; the backing identity, the pool inequalities, the three registered invariants and agreement with a boring reference model are evaluated in every state and on every transition; BFS-tree paths are replayed with real signed transactions through DeliverTx where 'a rejected message changes nothing' is decided against baseapp's real rollback. The first owner also sends its messages with its address spelled in upper-case bech32 (such messages are not predicted by the pool model; the state invariant decides).",
         "Cosmos SDK/Tendermint trusted; state identity = custom stores + bank + auth + relative block time; amounts and durations limited to the alphabet.",
         "DESIGN.md §3 C05"),
 "C06": ("model_checking",
         "explicit-state BFS over real-store branches + ABCI conformance replay",
         "Every history of <= d events (quick 5, thorough 7) of one owner with three pools of different lock ends, sends (both restart modes), withdrawals and block steps that land before / exactly on / after every lock end. Every transition: a withdrawal pays exactly the matured remainders, leaves locked pools untouched and pays zero when repeated; a send only ever creates a brand-new continuous vesting account holding the amount. Every state: the pool query's withdrawable equals what a withdrawal on a branch of that state pays per pool. The owner also holds a genesis pool locked until the year 2300, which must stay locked throughout.",
         "Same trusted base as C05; lock ends limited to 5/10/20 s and block steps to the listed set.",
         "DESIGN.md §3 C06"),
 "C02": ("model_checking",
         "exhaustive enumeration of configurations x all block cadences on real-store branches vs exact rational schedule",
         "For ~4000 (quick) / ~6800 (thorough) valid minter configurations (1-3 periods of none / linear / exponential-step, multipliers 0..1, period ends mid-step) every strictly increasing subsequence of an 8 (quick) / 11 (thorough) point grid of block instants (start, period ends, step boundaries, each +-1ms/+-1ns, far jump) is run through the real Keeper.Mint on store branches; after every block the cumulative minted amount must equal floor(schedule(T)) computed in exact rationals (either neighbour only when the schedule is within the fixed-point error bound of an integer), be identical for every cadence, never negative, match the supply delta; finished linear periods must have minted exactly their amount and the sequence id must follow the schedule. The reduced two- and three-period families are repeated with period ids starting at 2 and at 5.",
         "Keeper-level (params written through real Validate/SetParams); amounts/steps/multipliers limited to the alphabet; periods of 15-20 s.",
         "DESIGN.md §3 C02"),
 "C19": ("exploration",
         "bounded-exhaustive input enumeration on the real BeginBlocker + query, exact rational oracle",
         "Full product of minter configurations x initial supply {0 (crash-freedom and event == query only),1,1e6,1e12+7,1e30} x millisecond-aligned instants (before start, first/later step, last ms of a period, exactly at the hand-over, after it, no-minting) reached directly or through an earlier block; the reported inflation (Inflation query and Mint event) in the state left by the real minter BeginBlocker must equal annualised-rate/supply within the derived fixed-point bound, be zero when nothing is emitted, and the amount minted over 1ms/1s/1h inside one step must be within one base unit of rate*interval/year. Open-ended exponential periods are also read 64.5, 65.5 and 150.5 steps in.",
         "Inflation is only evaluated in keeper-reachable states; step durations 10 s and 4 years; tolerance derived from operation counts.",
         "DESIGN.md §3 C19"),
 "C03": ("model_checking",
         "exhaustive enumeration of validated configurations x inflow histories on real-store branches",
         "The complete product alphabet of 1- and 2-sub-distributor configurations (12 source lists incl. multi-source and both orders, 7 primaries incl. MAIN / internal / identifier reuse, named shares, burn share) plus 3-sub-distributor chain and fan-in templates is filtered by the real Params.Validate (2.3M candidates quick, 40k accepted); for each accepted configuration every history of 2 blocks (quick; thorough: 2 blocks over the wide alphabet of ~1.4 million accepted configurations, 3 blocks over the configurations of the quick alphabet) over multi-denomination inflow patterns into every source (incl. one that feeds the first source only) is run through the real cfedistributor.BeginBlocker; after every block: remains non-negative, sum integral and equal to the main account balance, both registered invariants hold, no panic.",
         "Module level: only the distributor's BeginBlocker runs; inflows placed directly; amounts from the listed patterns.",
         "DESIGN.md §3 C03"),
 "C04": ("model_checking",
         "exhaustive enumeration of validated configurations x inflow histories vs independent reference model",
         "Same configuration and history space as C03; after every block every recorded leftover, every account balance (main, module, base) and the burned total must equal an independent block-by-block model of the documented flow keyed by (type,id) with order-insensitive sources (18-decimal truncating shares, remainder to primary, integer parts paid at end of block); leftovers of payable destinations stay below one base unit when no transfer failed.",
         "Reference model refdist shares the documented numeric convention (truncate at 18 decimals); otherwise independent of the keeper's algorithm.",
         "DESIGN.md §3 C04"),
 "C07": ("exploration",
         "bounded-exhaustive input enumeration on the real message handlers",
         "Dense sweep (every original vesting 1..60 quick / 1..250 thorough x every split amount 1..OV x 4 durations x elapsed grid incl. not-yet-started), structured families (two denominations, delegated vesting through the real staking keeper - also delegated 90 days earlier, above the original vesting, and partly undelegated again with the unbonding completed -, move and move-by-denoms for every denom subset, chains of two splits from sender or recipient) and boundary families at 1e18..1e30 with amounts placed on every rounding edge of amount*OV/V (modular inverse construction). Each case: accepted iff amount <= locked; sender's locked drops by exactly the amount per denom, spendable unchanged; recipient is a new continuous vesting account with original vesting = amount, same end, start = max(now,start); at 4 later instants the still-vesting coins of all accounts together equal the sender's alone within 4 units per split (+ the SDK's own ratio rounding above 1e18).",
         "Message level on store branches; later-time comparison uses still-vesting coins (with delegations LockedCoins subtracts delegated vesting per account, which no split can preserve).",
         "DESIGN.md §3 C07"),
 "C08": ("exploration",
         "bounded-exhaustive input enumeration on the real message handlers, rational schedule oracle",
         "Full product of vesting type (free {0,0.05,1/3,0.5,1} x lockup {0,5,10}s x vesting {0,5,10}s) x pool remainder x amount {0,1,3,7,19,rem,rem+1} x restart flag x block time {before, at, after pool lock end} x recipient state {absent, base, vesting, blocked module, gov module}, plus direct creation over coins x (start,end) x recipient state. Outcome must match the documented rule; recipient gets exactly the amount, original vesting = floor(amount*(1-free)) in rationals, schedule compared behaviourally (locked coins at 9 later instants), sent counter and implicit withdrawal exact. Both tiers include vesting types of 150y+150y, 292y+0 and 0+292y; the thorough tier widens every axis (free shares 1e-18..1-1e-18, periods up to 3600, minute/hour/day units, remainders up to 1e24-1, amounts -1..rem+1, pools that already sent to another account: ~230 000 cases).",
         "Whole-second block times; schedule fields compared only when the vesting part is non-empty.",
         "DESIGN.md §3 C08"),
 "C09": ("model_checking",
         "explicit-state BFS over real-store branches + ABCI conformance replay",
         "Every sequence of <= 3 (quick) / 4 (thorough) account-creating messages (pool send, direct creation, split, move, move-by-denoms from owner and stranger, cfesignature create-account with matching / foreign / malformed key by two creators) aimed at every target state (absent, base, base with key and sequence 7, continuous vesting with delegation, delayed vesting, blocked module, gov module, the sender itself); after every transition the raw x/auth record of every pre-existing address must be byte-identical, except the signer's own sequence/public key (ante handler) and the reduction of the split/move sender's original vesting. Pool sends of 0 and 1, creation without coins and move-by-denoms of an unknown denom are part of the alphabet, as is a second sender with two denominations whose delegation is tracked as both delegated-vesting and delegated-free.",
         "cfesignature create-account is driven through the exported msg server (the app does not route it); vesting messages through the real router.",
         "DESIGN.md §3 C09"),
 "C14": ("fault_enumeration",
         "exhaustive enumeration of failing bank calls (deviation bounded) on the real distributor with a decorated bank keeper",
         "54 configurations (every account type as source and destination, burn share, chains and fan-in over internal accounts) x a 2-block inflow history: the fault-free twin fixes the number n of mutating bank calls; every non-empty subset of failing calls is run when n+1 <= 10, otherwise every subset of size <= 3, followed by a fault-free suffix of 2 blocks. After every block C03's identity must hold; after the suffix every destination balance and the burned total must be within one base unit of the fault-free twin. Failures are injected clean and half-way (first denomination moved, then the error); two fault-free suffixes are run: one bringing new coins and one in which nothing arrives at all.",
         "A failing bank call either has no side effect or has moved the first denomination only; keeper built with the exported NewKeeper over the app's own stores.",
         "DESIGN.md §3 C14"),
 "C17": ("model_checking",
         "explicit-state BFS over real-store branches + ABCI conformance replay",
         "Every history of <= 5 (quick) / 6 (thorough) events over sends from a genesis and a non-genesis pool, split / move / move-by-denoms from every vesting account created so far (genesis, traced non-genesis, untraced, and the fresh ones), delegations and undelegations (unbonding time 30 s, completing inside the trace) from vesting accounts and block steps of 1/20/40 s; in every state the set of recorded accounts and their genesis-derived flag must equal a lineage model, and both summary queries must equal recomputation from bank and account state. The owner's pools are [genesis, ordinary, genesis].",
         "Amounts fixed (send 8, split 2); one validator.",
         "DESIGN.md §3 C17"),
 "C18": ("model_checking",
         "exhaustive exploration (cadence trees, configuration x inflow histories, BFS) with event decoding",
         "Mint: 700 three-period and 64 four-period configurations x every cadence of a 6/8-point grid through the real minter BeginBlocker, event amount == supply delta. Distribution: the complete C03 configuration x history space, per sub-distributor the Distribution + DistributionBurn events must add up to its inflow (from the flow model validated by C04). Withdraw: the C06 exploration (one owner, three pools maturing at different times), every withdrawal and pool send must emit exactly one WithdrawAvailable per paying pool carrying that pool's amount.",
         "Typed events decoded with sdk.ParseTypedEvent.",
         "DESIGN.md §3 C18"),
 "C01": ("model_checking",
         "explicit-state BFS over the full application on real-store branches + ABCI conformance replay",
         "Every history of <= 5 (quick) / 6 (thorough) events over block steps (1 s, 7 s, jump past the period end), all vesting messages valid and rejected, signature messages, a fee-paying transaction in the first and in a second denomination and governance updates of minter and burn share, on the full application (all modules' Begin/EndBlockers in real order). Every state: supply == sum of all balances for every denom. Every block: supply delta == bank-minted - bank-burned, only the minter module mints (its own denom, exactly the amount it reports, equal to the exact-rational schedule while governance has not replaced it) and only the distributor burns, exactly what its burn books say. Every message: supply unchanged and only signer / vesting module / recipient / fee collector balances move.",
         "One configuration per scenario (linear then exponential period, burn share 0.1, fractional shares); SDK modules trusted.",
         "DESIGN.md §3 C01"),
 "C10": ("model_checking",
         "explicit-state BFS over the full application on real-store branches + ABCI conformance replay",
         "Every history of <= 4 (quick) / 5 (thorough) events over block steps (1 ms .. jump over two periods), 14 governance minter updates (a fresh denomination under an open-ended exponential period, dropping the periods that have ended, start moved past/future, current period end moved before/after now, periods dropped/added around the current id, ids not starting at 1, amount 1e35, denominations incl. invalid ones), 6 governance distributor updates (persistently failing locked source and blocked destination, share to MAIN, burn 0.99, partial updates), a fee-paying transaction and a module-level genesis export->import restart; begin/end-block processing of all modules must never panic.",
         "Updates are filtered by the real validation; restart on branches uses the modules' exported Init/ExportGenesis (the ABCI form is decided under C12).",
         "DESIGN.md §3 C10"),
 "C13": ("model_checking",
         "explicit-state BFS over the full application on real-store branches + ABCI conformance replay",
         "Every sequence of <= 4 (quick) / 5 (thorough) events over the 7 parameter-update message types x authority {gov, user, empty, garbage} x 43 payloads (valid, invalid, partially valid: share pushing the sum to 1, burn share 1, replacement breaking the MAIN ordering rule, minters missing the current id, unordered, gap, linear last, denom changes) interleaved with blocks that move the minter to the next period and a create-pool message. Every state: stored parameters of all three modules validate (the minter's id and end-time rules are also stated independently of the module's own validator) and contain the minter's current period. Every transition: non-gov authority is rejected, a rejected update leaves all parameter bytes unchanged, an accepted one stores exactly the requested value, the vesting denom never changes while pools exist, no other message changes parameters. Withdraw / send-all events empty the pool without removing its record; three proposals whose second message fails must leave no trace; every authority payload is also run through a real governance proposal (submit, vote, EndBlocker) and must agree with the shortcut.",
         "Authority messages are executed the way x/gov executes them (router handler on a cache branch).",
         "DESIGN.md §3 C13"),
 "C15": ("model_checking",
         "explicit-state BFS over real-store branches + ABCI conformance replay (commits in between) + exhaustive single-field mutation list",
         "Every history of <= 4 (quick) / 5 (thorough) publish / store messages over 2 reference ids x 3 link values (incl. empty) and 3 storage keys x 5 signature payloads (valid ECDSA P-256, valid RSA-2048, valid over the other link, missing field, malformed JSON) with blocks in between; in every state the raw payload-link entries must equal a first-writer-wins model and VerifySignature for every (address, reference) must succeed exactly when an independent crypto/ecdsa / crypto/rsa verification of the stored record over sha256(addr:ref:link) passes, returning signature, algorithm, certificate and timestamp unchanged. 718 single-field mutations of 4 valid records (a bit flipped at every byte of the signature, algorithm / certificate swapped, unknown, empty, truncated; address, reference id, link swapped) must all fail verification. BFS-tree paths are replayed through ABCI with real commits, so values are read back from IAVL. Links ending with the separator, the empty link and publishes under case variants / a trailing-space variant of a published key are part of the alphabet.",
         "Messages driven at the exported msg-server seam (the app does not route them); fixtures committed.",
         "DESIGN.md §3 C15"),
 "C20": ("exploration",
         "bounded-exhaustive input enumeration (full product of per-field boundary alphabets) under recover()",
         "For all 17 message types the full product of per-field boundary alphabets (addresses, Int/Dec incl. omitted-on-the-wire nil, Coins incl. nil amount / duplicates / invalid denom, durations and times incl. int64 extremes, Any incl. nil / foreign type / empty type url, nil pointers and nil slice elements, strings, JSON) - 21 672 inputs - each taken through a protobuf marshal / unmarshal / UnpackInterfaces round trip and run in 4 states (empty, populated, pool whose vesting type was removed, matured pools summing above int64): ValidateBasic must not panic, if it passes the handler (real router; msg server for cfesignature) must not panic and GetSigners must not panic; every query of the four modules with nil and boundary requests must not panic. Since wave 4: 2^63 in the amount alphabets and a fourth state with two matured pools whose remainders sum above int64.",
         "Inputs that cannot be encoded/decoded are counted as unreachable and not executed.",
         "DESIGN.md §3 C20"),
 "C11": ("model_checking",
         "exhaustive history set (BFS trees of six scenarios) executed by independent OS processes through ABCI, transcripts compared",
         "The maximal BFS-tree histories of six scenarios (supply c01, vesting c05, parameters c10 and c13, signature c15, lineage c17: ~7 400 histories quick, depth 3; depth 4 thorough) are each executed by R independent OS processes (R=2 quick, 4 thorough) strictly through InitChain / BeginBlock / DeliverTx (real signed transactions) / EndBlock / Commit; per ABCI response the deterministic fields (code, codespace, data, gas wanted/used, events) and every Commit app hash must be identical. In addition the whole v1.2.0 upgrade handler is executed on 400 pre-upgrade states by processes started with different TZ values (two in UTC, others in zones with daylight saving) and must leave the same state. During the exploration every transition is executed ten more times on the same state and must give the same outcome, events and resulting state (map ranges are randomised per execution). A seventh scenario gives every collection the distributor walks >= 2 elements. Replica 0 is a plain node; every other replica is restarted after every block (new application object over the same database) and runs CheckTx + Simulate around every delivered transaction, and starts 1.3 s later; histories include proposals whose second message fails.",
         "Exhaustive over the listed histories, not over Go map iteration orders (stated limit): a state-affecting map iteration is missed by one history with probability <= 2^-(R-1). Log/Info strings excluded (ABCI declares them non-deterministic).",
         "DESIGN.md §3 C11"),
 "C12": ("model_checking",
         "explicit-state BFS with a restart at every state: module-level export/import on branches + real ABCI export / InitChain of a second application",
         "Five scenarios (supply, vesting, parameters, signature, lineage). Every explored state (depth 3 quick / 4 thorough, ~8 000 states) gets a module-level restart on a branch (each custom module's exported ExportGenesis -> JSON -> Validate -> wiped store -> InitGenesis; store must be unchanged). Every BFS-tree state up to depth 2 (quick, ~900 export points) / 3 (thorough) is reached through real ABCI with signed transactions and commits, exported with ExportAppStateAndValidators, validated per module, imported into a second application with InitChain, re-exported (canonical JSON equal), stores of the four custom modules + bank + auth compared, custom query answers compared, and every continuation of length 1 (quick) / 2 (thorough) over the scenario alphabet compared on both applications (outcome, stores, typed events, queries).",
         "Two known findings (known_findings.json): cfesignature exports no signatures/links; accounts with start == end fail x/auth genesis validation. The burn state's empty-vs-absent account encoding is normalised (no data).",
         "DESIGN.md §3 C12"),
 "C16": ("exploration",
         "bounded-exhaustive enumeration of pre-upgrade stores in the previous format, whole upgrade handler executed",
         "Product alphabet of pre-upgrade states written in the previous store format (v2 pools and traces under the old prefixes, legacy x/params subspaces, module versions 2): pool layouts of the hard-coded owner (subsets and orders of Validators / Advisors / other pool; currently locked in {0, sum-1, sum, sum+1, 2*sum}; with and without sent/withdrawn history), a second owner's pool of the removed type, vesting type present/absent, the four hard-coded accounts in 5 kinds, 8 legacy minter (two with periods that ended before the upgrade) and 5 legacy distributor (also stored in the version-1 percentage format with the module at version 1) parameter sets (344 cases quick, ~2 400 thorough); each case runs the whole registered v1.2.0 handler through UpgradeKeeper.ApplyUpgrade. Total locked and module balance unchanged, every pool's sent/withdrawn unchanged, solvency and registered invariants, split all-or-nothing, shifted accounts keep amounts, other accounts byte-identical, traces preserved, migrated minter parameters validate and give the same exact-rational schedule on a time grid, distributor parameters byte-equal. Owner sets include pools already named like the pools the split creates (matched as a multiset).",
         "In-process on a store branch of an application whose genesis has no ICA state.",
         "DESIGN.md §3 C16"),
}

NOT_YET = {}

def main():
    props = [json.loads(l) for l in open(os.path.join(HERE, "properties.jsonl"))]
    checks = []
    na = []
    for p in props:
        pid = p["id"]
        if pid in CHECKS:
            cat, tech, text, note, ref = CHECKS[pid]
            checks.append({
                "property_id": pid,
                "quick_cmd": f"./run.sh {pid} quick",
                "thorough_cmd": f"./run.sh {pid} thorough",
                "evidence_file": f"/verif/evidence/{pid}.json",
                "replay_cmd_template": "./run.sh replay {path}",
                "engine": "c4emc",
                "level_claimed": {"category": cat, "text": text, "design_ref": ref},
                "level_note": note,
                "technique": tech,
            })
        else:
            na.append({"property_id": pid, "reason": NOT_YET.get(pid, "check not built yet in this round (planned: bounded exhaustive exploration per DESIGN.md §3); not claimed until it exists")})
    hooks_commits = []
    try:
        out = subprocess.run(["git", "-C", "/repo", "log", "--format=%H %s"], capture_output=True, text=True).stdout
        for l in out.splitlines():
            h, s = l.split(" ", 1)
            if s.startswith("verif-hook:"):
                hooks_commits.append(h)
    except Exception:
        pass
    m = {
        "version": 1,
        "setup_cmd": "./run.sh build",
        "hooks": {
            "guard": "verif",
            "enable": "go build -tags verif (run.sh passes it; no hook files exist yet: every seam used is already exported)",
            "baseline_off_cmd": "cd /repo && GOFLAGS=-mod=mod GOPROXY=off GOSUMDB=off go test -json -vet=off -count=1 -timeout 25m ./...",
            "source_commits": hooks_commits,
            "add_only": True,
        },
        "engines": [{
            "name": "c4emc", "path": "/verif/mc",
            "serves_properties": sorted(CHECKS.keys()),
            "kind_free_text": "hand-written explicit-state explorer (level-synchronous BFS over event histories, states = CacheContext branches of the real app's stores, SHA-256 canonical digests), ABCI conformance driver with real signed transactions, bounded-exhaustive input enumerators, bank-fault enumerator",
        }],
        "checks": checks,
        "not_applicable": na,
        "notes": "All checks rebuild /verif/mc against /repo's working tree (replace directive) on every invocation. Known findings: /verif/known_findings.json.",
    }
    json.dump(m, open(os.path.join(HERE, "MANIFEST.json"), "w"), indent=1)
    print("checks:", len(checks), "not_applicable:", len(na))

if __name__ == "__main__":
    main()
