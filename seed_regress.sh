#!/bin/bash
# applies every recorded seeded change to /repo in turn, runs the quick checks its meta.json lists under
# detected_by, and reports whether each still raises a VIOLATION; /repo is reverted after every seed.
# usage: seed_regress.sh [seed-name-pattern]
cd /verif
export GOFLAGS=-mod=mod GOPROXY=off GOSUMDB=off GOTOOLCHAIN=local
[ -z "$(git -C /repo status --short)" ] || { echo "/repo is not clean"; exit 2; }
rc=0
for d in seeded/${1:-*}/; do
  n=$(basename $d)
  [ -f $d/meta.json ] || continue
  checks=$(python3 -c "import json;print(' '.join(json.load(open('$d/meta.json'))['detected_by'].keys()))")
  git -C /repo apply /verif/$d/patch.diff || { echo "$n: patch does not apply"; rc=1; continue; }
  for c in $checks; do
    out=$(./run.sh $c quick 2>/dev/null); e=$?
    if echo "$out" | grep -q '^VIOLATION'; then echo "$n $c DETECTED ($(echo "$out" | grep -c '^VIOLATION') violations)"; else echo "$n $c MISSED exit=$e"; rc=1; fi
  done
  git -C /repo checkout -- .
done
exit $rc
